#!/usr/bin/env python3
"""tools/benign_matrix.py [filter] - applies every behaviour-preserving refactoring under /verif/benign, /verif/benign2 and /verif/benign3 to a scratch
copy of /repo HEAD (outside /repo and /verif, removed afterwards), runs every registered quick check against it and
writes /verif/benign/MATRIX.json: for each refactoring the checks that did not exit 0 (expected: none, or the
accepted 'analysis broken' cases listed in DESIGN.md section 14).  Exit status 1 if any check reports a violation."""
import json
import os
import re
import shutil
import subprocess
import sys
import tempfile
from concurrent.futures import ThreadPoolExecutor

VERIF = os.path.dirname(os.path.dirname(os.path.abspath(__file__)))


def run_one(item):
    name, patch = item
    d = tempfile.mkdtemp(prefix="benmx.", dir="/tmp")
    try:
        subprocess.run("git -C /repo archive HEAD | tar -x -C %s" % d, shell=True, check=True)
        subprocess.run(["git", "init", "-q", "."], cwd=d, check=True)
        r = subprocess.run(["git", "apply", patch], cwd=d, capture_output=True, text=True)
        if r.returncode != 0:
            return name, {"error": "patch does not apply"}
        man = json.load(open(os.path.join(VERIF, "MANIFEST.json")))
        env = dict(os.environ, VERIF_REPO=d, VERIF_EVIDENCE_DIR=d + "/ev")
        out = {}
        only = [x for x in os.environ.get("BENIGN_CHECKS", "").split(",") if x]
        for c in man["checks"]:
            pid = c["property_id"]
            if only and pid not in only:
                continue
            rr = subprocess.run([os.path.join(VERIF, "check"), pid], cwd=VERIF, env=env, capture_output=True, text=True)
            if rr.returncode != 0:
                rules = []
                for line in rr.stdout.split("\n"):
                    m = re.search(r"(?:: |on )(C\d\d[.a-zA-Z0-9]*)[: ]", line)
                    if m and m.group(1) not in rules:
                        rules.append(m.group(1))
                out[pid] = {"exit": rr.returncode, "rules": rules[:6]}
        return name, out
    finally:
        shutil.rmtree(d, ignore_errors=True)


def main():
    items = []
    base = os.path.join(VERIF, "benign")
    for rnd, dname in (("", "benign"), ("2:", "benign2"), ("3:", "benign3")):
        bd = os.path.join(VERIF, dname)
        if not os.path.isdir(bd):
            continue
        for p in sorted(os.listdir(bd)):
            for r in ("r1", "r2", "r3"):
                f = os.path.join(bd, p, r + ".diff")
                if os.path.exists(f):
                    items.append((rnd + p + "/" + r, f))
    if len(sys.argv) > 1:
        items = [x for x in items if sys.argv[1] in x[0]]
    with ThreadPoolExecutor(max_workers=int(os.environ.get("BENIGN_JOBS", "6"))) as ex:
        res = dict(ex.map(run_one, items))
    alarms = 0
    for n, r in sorted(res.items()):
        bad = {k: v for k, v in r.items() if isinstance(v, dict) and v.get("exit")}
        alarms += sum(1 for v in bad.values() if v["exit"] == 1)
        print("%-10s %s" % (n, "clean" if not bad else ", ".join("%s exit=%d (%s)" % (k, v["exit"], "/".join(v["rules"][:2])) for k, v in sorted(bad.items()))))
    if len(sys.argv) == 1 and not os.environ.get("BENIGN_CHECKS"):
        json.dump(res, open(os.path.join(base, "MATRIX.json"), "w"), indent=1, sort_keys=True)
    print("%d refactorings, %d false alarm(s)" % (len(res), alarms))
    return 1 if alarms else 0


if __name__ == "__main__":
    sys.exit(main())
