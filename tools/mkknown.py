#!/usr/bin/env python3
"""tools/mkknown.py - (re)generate engine/known_functions.txt: the template-erased names of every library function
the analysed units of the CURRENT /repo tree contain.  Run by hand on the reference tree only; the checks never
write this file.  engine/inline.py treats a library function whose name is not listed as a helper introduced by a
later change and looks through it."""
import os
import sys
sys.path.insert(0, os.path.dirname(os.path.dirname(os.path.abspath(__file__))))
from engine import facts

names = set()
for u in facts.UNITS:
    tu = facts.load(u)
    for f in tu.fns.values():
        if f.is_lib:
            names.add(f.qe)
out = os.path.join(facts.VERIF, "engine", "known_functions.txt")
with open(out, "w") as fh:
    for n in sorted(names):
        fh.write(n + "\n")
print(len(names), "names ->", out)
