#!/usr/bin/env python3
"""tools/tryall.py <patch> [check ids...]  - apply <patch> to a scratch copy of /repo HEAD (outside /repo and /verif),
run the named quick checks (default: all 20) against it in parallel, print every check that is not a clean pass,
remove the copy.  Exit status: number of checks that did not exit 0."""
import os
import shutil
import subprocess
import sys
import tempfile
from concurrent.futures import ThreadPoolExecutor

VERIF = os.path.dirname(os.path.dirname(os.path.abspath(__file__)))


def main():
    patch = os.path.abspath(sys.argv[1])
    ids = sys.argv[2:] or ["C%02d" % i for i in range(1, 21)]
    d = tempfile.mkdtemp(prefix="tryall.", dir="/tmp")
    try:
        subprocess.run("git -C /repo archive HEAD | tar -x -C %s" % d, shell=True, check=True)
        subprocess.run(["git", "init", "-q", "."], cwd=d, check=True)
        r = subprocess.run(["git", "apply", patch], cwd=d, capture_output=True, text=True)
        if r.returncode != 0:
            print("PATCH DOES NOT APPLY", r.stderr[:300])
            return 99
        env = dict(os.environ, VERIF_REPO=d, VERIF_EVIDENCE_DIR=os.path.join(d, "ev"))

        def one(cid):
            p = subprocess.run([os.path.join(VERIF, "check"), cid], capture_output=True, text=True, env=env)
            return cid, p.returncode, p.stdout + p.stderr

        bad = 0
        with ThreadPoolExecutor(max_workers=int(os.environ.get("TRYALL_JOBS", "6"))) as ex:
            for cid, rc, out in ex.map(one, ids):
                if rc != 0:
                    bad += 1
                    lines = [l for l in out.splitlines() if not l.startswith("VIOLATION") and not l.startswith("KNOWN-FINDING")]
                    print("%s exit=%d" % (cid, rc))
                    for l in lines[:int(os.environ.get("TRYALL_LINES", "6"))]:
                        print("    " + l[:420])
        print("%s: %d check(s) not clean of %d" % (os.path.basename(patch), bad, len(ids)))
        return bad
    finally:
        shutil.rmtree(d, ignore_errors=True)


if __name__ == "__main__":
    sys.exit(main())
