#!/bin/sh
# tools/mut.sh <check ids, comma separated> <file relative to repo> <sed expression> [corpus file]
# applies one edit to a scratch copy of /repo (outside /repo and /verif), checks it still compiles,
# runs the named checks against it and removes the copy.
ids=$1; file=$2; expr=$3; corp=${4:-core}
d=$(mktemp -d /tmp/mut.XXXXXX)
rsync -a --exclude _build --exclude .git /repo/ $d/
sed -i "$expr" $d/$file
if diff -q /repo/$file $d/$file >/dev/null; then echo "MUTATION DID NOT APPLY"; rm -rf $d; exit 3; fi
diff /repo/$file $d/$file | head -8
if ! clang++ -std=c++17 -I$d/include -fsyntax-only -w /verif/corpus/$corp.cpp 2>/tmp/mut.err; then echo "DOES NOT COMPILE"; head -5 /tmp/mut.err; rm -rf $d; exit 4; fi
for id in $(echo $ids | tr , ' '); do
  VERIF_REPO=$d VERIF_EVIDENCE_DIR=$d/ev /verif/check $id 2>&1 | grep -v "^VIOLATION" | cut -c1-330 | tail -4
done
rm -rf $d
