#!/bin/bash
# tools/tryseed.sh <patch> <check-id>... : run checks against a scratch copy of /repo with <patch> applied.
# Nothing is written to /repo or /verif/evidence; the scratch copy is removed afterwards.
set -u
patch=$(readlink -f "$1"); shift
d=$(mktemp -d /tmp/tryseed.XXXXXX)
git -C /repo archive HEAD | tar -x -C "$d"
( cd "$d" && git init -q . && git apply "$patch" ) || { echo "patch does not apply"; rm -rf "$d"; exit 3; }
mkdir -p "$d/ev"
for c in "$@"; do
  VERIF_REPO="$d" VERIF_EVIDENCE_DIR="$d/ev" /verif/check "$c" 2>&1 | grep -E "VIOLATION|KNOWN|broken|obligations" | cut -c1-400 | head -${TRYSEED_LINES:-12}
  echo "exit=${PIPESTATUS[0]}"
done
rm -rf "$d"
