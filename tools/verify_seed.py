#!/usr/bin/env python3
"""tools/verify_seed.py <name> <src-out-dir> '<demo command with {INC} and {DIR}>' [--skip-suite]

Confirms a seeded change independently, in a scratch worktree of /repo's HEAD under /tmp:
  1. the demonstration exits 0 on the unchanged tree,
  2. the patch applies and still compiles, and the demonstration fails with it,
  3. the repository's own suite (self_test, thread_terror, custom_recursive_mutex) passes with it,
  4. which of /verif's checks report it (quick tier).
Writes /verif/seeded/<name>/{patch.diff, demo files, RUN.txt, meta.json} and removes the worktree."""
import json
import os
import shutil
import subprocess
import sys
import time

VERIF = os.path.dirname(os.path.dirname(os.path.abspath(__file__)))


def sh(cmd, **kw):
    return subprocess.run(cmd, shell=True, capture_output=True, text=True, **kw)


def main():
    name, src, cmd = sys.argv[1], sys.argv[2], sys.argv[3]
    skip_suite = "--skip-suite" in sys.argv
    wt = "/tmp/vseed/" + name
    dst = os.path.join(VERIF, "seeded", name)
    sh("git -C /repo worktree remove --force %s" % wt)
    os.makedirs("/tmp/vseed", exist_ok=True)
    r = sh("git -C /repo worktree add -f --detach %s HEAD" % wt)
    if r.returncode:
        print(r.stderr)
        return 1
    os.makedirs(dst, exist_ok=True)
    for f in os.listdir(src):
        p = os.path.join(src, f)
        if f in ("demo", "a.out") or f.endswith(".o"):
            continue
        if os.path.isdir(p):
            shutil.copytree(p, os.path.join(dst, f), dirs_exist_ok=True)
        elif os.path.getsize(p) < 2_000_000:
            shutil.copy(p, os.path.join(dst, f))
    log = {}
    run = cmd.replace("{INC}", wt + "/include").replace("{DIR}", dst)
    bindir = "/tmp/vseed/%s-bin" % name
    os.makedirs(bindir, exist_ok=True)
    run = run.replace("{BIN}", bindir)
    r0 = sh(run, timeout=900)
    log["demo_unchanged_exit"] = r0.returncode
    r = sh("git -C %s apply %s/patch.diff" % (wt, dst))
    log["patch_applies"] = r.returncode == 0
    if r.returncode:
        print("patch does not apply:", r.stderr)
    r1 = sh(run, timeout=900)
    log["demo_changed_exit"] = r1.returncode
    log["demo_changed_tail"] = (r1.stdout + r1.stderr)[-600:]
    if not skip_suite:
        t0 = time.time()
        b = sh("cd %s && cmake -G Ninja -S . -B _b -DTROMPELOEIL_BUILD_TESTS=ON -DCMAKE_BUILD_TYPE=RelWithDebInfo "
               "-DCMAKE_CXX_FLAGS=-Wno-error > /dev/null && nice ninja -C _b -j%s > _b/build.log 2>&1"
               % (wt, os.environ.get("SEED_J", "6")), timeout=3600)
        log["suite_builds"] = b.returncode == 0
        if b.returncode == 0:
            s = sh("cd %s/_b/test && ./self_test | tail -2" % wt, timeout=1800)
            log["self_test"] = s.stdout.strip().split("\n")[-1] if s.stdout.strip() else "rc=%d" % s.returncode
            log["self_test_pass"] = "All tests passed" in s.stdout
            t = sh("cd %s/_b/test && ./thread_terror > /dev/null" % wt, timeout=1800)
            log["thread_terror_rc"] = t.returncode
            c = sh("cd %s/_b/test && ./custom_recursive_mutex > /dev/null" % wt, timeout=600)
            log["custom_recursive_mutex_rc"] = c.returncode
        log["suite_s"] = round(time.time() - t0)
        shutil.rmtree(wt + "/_b", ignore_errors=True)
    # which checks catch it
    caught = {}
    man = json.load(open(os.path.join(VERIF, "MANIFEST.json")))
    env = dict(os.environ, VERIF_REPO=wt, VERIF_EVIDENCE_DIR="/tmp/vseed/%s-ev" % name)
    for c in man["checks"]:
        pid = c["property_id"]
        rr = subprocess.run(["./check", pid, "--tier", "quick"], cwd=VERIF, env=env, capture_output=True, text=True)
        lines = [l for l in rr.stdout.split("\n") if l and not l.startswith("VIOLATION") and ": C" in l][:3]
        if rr.returncode != 0:
            caught[pid] = {"exit": rr.returncode, "reports": [l[:300] for l in lines]}
    log["checks_reporting"] = caught
    sh("git -C /repo worktree remove --force %s" % wt)
    shutil.rmtree(bindir, ignore_errors=True)
    shutil.rmtree("/tmp/vseed/%s-ev" % name, ignore_errors=True)
    meta = {}
    mp = os.path.join(dst, "meta.json")
    if os.path.exists(mp):
        try:
            meta = json.load(open(mp))
        except Exception:
            meta = {}
    meta["verified"] = log
    meta["demo_command"] = cmd
    meta["base_commit"] = sh("git -C /repo rev-parse --short HEAD").stdout.strip()
    json.dump(meta, open(mp, "w"), indent=1)
    with open(os.path.join(dst, "RUN.txt"), "w") as fh:
        fh.write("# {INC} = include directory of the tree under test, {DIR} = this directory, {BIN} = scratch dir\n" + cmd + "\n")
    # evidence files are rewritten by the check runs above against the scratch tree: restore them
    print(json.dumps(log, indent=1))
    ok = (log["demo_unchanged_exit"] == 0 and log["patch_applies"] and log["demo_changed_exit"] != 0
          and (skip_suite or (log.get("self_test_pass") and log.get("thread_terror_rc") == 0
                              and log.get("custom_recursive_mutex_rc") == 0)))
    print("SEED", name, "CONFIRMED" if ok else "NOT CONFIRMED")
    return 0 if ok else 1


if __name__ == "__main__":
    sys.exit(main())
