#!/usr/bin/env python3
"""tools/seed_matrix.py - applies every seeded change under /verif/seeded to a scratch copy of /repo
(outside /repo and /verif, removed afterwards), runs every registered quick check against it and
writes /verif/seeded/MATRIX.json: which checks report which change, with the first reported rule."""
import json
import os
import re
import shutil
import subprocess
import sys
import tempfile
from concurrent.futures import ThreadPoolExecutor

VERIF = os.path.dirname(os.path.dirname(os.path.abspath(__file__)))


def run_seed(name):
    d = tempfile.mkdtemp(prefix="seedmx.", dir="/tmp")
    try:
        subprocess.run(["rsync", "-a", "--exclude", "_build", "--exclude", ".git", "/repo/", d + "/"], check=True)
        patch = os.path.join(VERIF, "seeded", name, "patch.diff")
        r = subprocess.run(["patch", "-p1", "-s", "-d", d, "-i", patch], capture_output=True, text=True)
        if r.returncode != 0:
            return name, {"error": "patch does not apply: " + (r.stdout + r.stderr)[-200:]}
        man = json.load(open(os.path.join(VERIF, "MANIFEST.json")))
        env = dict(os.environ, VERIF_REPO=d, VERIF_EVIDENCE_DIR=d + "/ev")
        out = {}
        only = [x for x in os.environ.get("SEED_CHECKS", "").split(",") if x]
        for c in man["checks"]:
            pid = c["property_id"]
            if os.environ.get("SEED_OWN_ONLY") and pid != name[:3]:
                continue
            if only and pid not in only and pid != name[:3]:
                continue
            rr = subprocess.run([os.path.join(VERIF, "check"), pid], cwd=VERIF, env=env, capture_output=True, text=True)
            rules = []
            for line in rr.stdout.split("\n"):
                m = re.search(r": (C\d\d[.a-zA-Z0-9]*): ", line)
                if m and not line.startswith("KNOWN") and m.group(1) not in rules:
                    rules.append(m.group(1))
            if rr.returncode != 0:
                out[pid] = {"exit": rr.returncode, "rules": rules[:6]}
        return name, out
    finally:
        shutil.rmtree(d, ignore_errors=True)


def main():
    names = sorted(n for n in os.listdir(os.path.join(VERIF, "seeded"))
                   if os.path.exists(os.path.join(VERIF, "seeded", n, "patch.diff")))
    if len(sys.argv) > 1:
        names = [n for n in names if sys.argv[1] in n]
    with ThreadPoolExecutor(max_workers=int(os.environ.get("SEED_JOBS", "5"))) as ex:
        res = dict(ex.map(run_seed, names))
    for n in names:
        own = n.split("-")[0][:3]
        r = res[n]
        print("%-36s own-check:%-8s reported by: %s" % (
            n, "CAUGHT" if own in r and r[own].get("exit") == 1 else "MISSED",
            ", ".join("%s(%s)" % (k, "/".join(v.get("rules", [])[:2])) for k, v in sorted(r.items()) if isinstance(v, dict) and "exit" in v)))
    if len(sys.argv) == 1 and not os.environ.get("SEED_OWN_ONLY") and not os.environ.get("SEED_CHECKS"):
        json.dump(res, open(os.path.join(VERIF, "seeded", "MATRIX.json"), "w"), indent=1)


if __name__ == "__main__":
    main()
