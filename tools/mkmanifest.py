#!/usr/bin/env python3
"""Regenerates /verif/MANIFEST.json from the table below (single source of truth)."""
import json
import os
import sys

VERIF = os.path.dirname(os.path.dirname(os.path.abspath(__file__)))

LEVEL_NOTE = ("Trusted base: clang 14 front end (parser, template instantiation, CFG builder), "
              "libstdc++ 12 as instantiated, the plugin's fact extraction, and the written lifting "
              "arguments of DESIGN.md section 4. Assumes a conforming reporter (a fatal report does not "
              "return) and that elidable copies are elided. No trompeloeil code is executed.")

CHECKS = {
    "C19": dict(
        technique="compile-fail / compile-pass witness matrix decided by the compiler front end; "
                  "preprocessor #define census (-E -dD) for macro hygiene",
        text="Every documented misuse in an enumerated matrix (shipped negative programs + each illegal "
             "ingredient at every position of every legal clause chain) is rejected by the compiler with "
             "the documented diagnostic (including, at C++20, the coroutine clause matrix: misuse on coroutine "
             "functions and every coroutine clause on an ordinary function at every position), every "
             "permutation of every legal clause subset compiles, and no "
             "#define directive in the headers escapes the TROMPELOEIL_ prefix under TROMPELOEIL_LONG_MACROS. "
             "The verdict is the compiler's own, so it holds for every program built from these clause "
             "chains, not for sampled runs. "
             "Every spelling of a call-count limit (n; a,b; AT_LEAST; AT_MOST; lower bound 0 with non-zero upper bound; RT_TIMES forms) at every position relative to the other clauses is in the positive matrix.",
        design_ref="DESIGN.md section 4, C19",
        note="clang++ 14 (quick: C++14/17/20 subsets) and additionally g++ 12 at C++14/17/20 (thorough); "
             "diagnostics are attributed to generated cases by source line."),
}

CHECKS["C16"] = dict(
    technique="interprocedural typestate automaton over the CFGs of every dispatch instantiation "
              "(OK-report count vs fatal reports vs user actions), argument data-flow, who-may-access",
    text="On every path of every instantiation of the mock-call dispatch (all branches, callees inlined by "
         "summaries, virtual calls by class-hierarchy analysis) an accepted call sends exactly one OK report "
         "before its first action and a call that ends in a fatal report sends none; the OK text is the "
         "selected expectation's own name field; only set_reporter writes the reporter objects and it returns "
         "the exchanged value. Holds for all histories because the CFG does not depend on the history. " 
         "The reporter and OK-reporter objects handed out by their accessors have static storage duration and are not thread_local (one installed reporter per process). "
         "set_reporter is also decided at the C++11 language level (the library's own exchange): what is assigned to is the reporter object itself, not a copy.",
    design_ref="DESIGN.md section 4, C16",
    note="Not decided: what an installed reporter does with the text.")

CHECKS["C12"] = dict(
    technique="lock-state dataflow over CFGs x calling contexts along the resolved call graph (LOCK), "
              "who-may-create for synchronisation objects, critical-section counting per operation",
    text="Sound per-thread over-approximation: from every user-code entry in the analysed units, on every path "
         "and call chain (virtual calls/destructors by class-hierarchy analysis, implicit destructor calls from "
         "the CFG, libstdc++ bodies followed), each access to the shared-state table (expectation and sequence "
         "links, call counters and limits, reported flag, monitor slot) happens with the single global lock held; "
         "destructor tails are accepted only below a locked detach of the same sub-object; there is exactly one "
         "synchronisation object; each listed operation is one critical section. Because the argument is per "
         "thread and per path, it covers every schedule and any number of threads, which no stress run can. "
         "What get_lock() locks has static storage duration and is not thread_local. "
         "Whether a member may be read without the lock because it is atomic is decided by its declared type. "
         "The global mutex is created by the initialiser of a function-local static, never by a test-and-assign.",
    design_ref="DESIGN.md section 4, C12",
    note="Exemptions (named, with reasons, in rules/C12.py): sequence-object destruction, mock move, "
         "set_sequence's copy of the never-registered old handler, TIMES before IN_SEQUENCE. Not decided: "
         "user callbacks, reporter/tracer installation. Linearizability is argued from one lock + one critical "
         "section per operation (written argument), the sequential behaviour being C01-C08/C13.")

CHECKS["C15"] = dict(
    technique="context-sensitive severity resolution by an interprocedural automaton over destructor-rooted and "
              "dispatch-rooted call chains; parameter-to-argument data-flow of report locations; CFG loop/dominance "
              "checks of the no-match report",
    text="Every report reachable from any library destructor or from mock destruction is non-fatal and every report "
         "reachable from the mock-call dispatch is fatal, on all paths and call chains, with severity parameters bound "
         "per calling context (so a conforming reporter is never made to throw from a destructor, for every history). "
         "The location argument of each report site flows from the reporting expectation's own loc field over all "
         "callers; the no-match report prints all actual parameters, tests and lists every saturated expectation that "
         "matches, lists live ones only otherwise, with no early exit from either loop. " 
         "The values printed by a forbidden-call report are derived from the reporting function's call-parameter tuple (not from the expectation's stored values), and the parameter printer visits every index of that tuple unconditionally under its own number. "
         "The saturated list follows a moved mock (so the saturated listing of the no-match report is right after a move).",
    design_ref="DESIGN.md section 4, C15", note="Not decided: wording of the messages.")
CHECKS["C05"] = dict(
    technique="decision tables of the cost/order/retire_until loop steps by interpreting the extracted CFG over all "
              "atom valuations (TABLE); typestate automaton over the two sequence-step consumers (AUTOMATON); "
              "who-may-call / ordering checks",
    text="The sequence cost, order (maximum over sequences), can_be_called and retire_until steps equal their "
         "specification on every valuation of their atoms; both consumers of a sequence step (mock call, monitored "
         "destruction) validate only when not callable and before any mutation, count exactly once, retire their "
         "predecessors on every accepted path, and a path ending in a fatal report has changed no state; registration "
         "appends under the lock; validate_match reports iff not first in line with the caller's severity. "
         "The whole step protocol of the accept path is a premise of this property and is decided by this check too: forbidden test first and unconditional, sequence check before the count, exactly one count, saturation test after the count, the expectation has left its list and its sequences before any user code runs. "
         "validate() asks every named sequence, unconditionally. "
         "retire_predecessors reaches the handle of every named sequence, whatever its cost.",
    design_ref="DESIGN.md section 4, C05",
    note="The step tables lift to the loops' results, and these to all histories, by the induction written in DESIGN.md "
         "(not machine-checked).")
CHECKS["C04"] = dict(
    technique="truth table of the end-of-life guard (TABLE), edge dominance of the emitters (DOM), report-once "
              "automaton, who-may-call, loop-order check of decommission",
    text="is_unfulfilled equals (not reported and linked and not satisfied) on all 8 valuations; both lifetime ends "
         "evaluate it on every path and report exactly on its true edge; the report marks the expectation as reported "
         "and is sent exactly once, non-fatally, with location, name, expected values, required and actual counts; "
         "only the two lifetime ends may emit it; mock destruction visits every expectation (report, then unlink). "
         "reported and unlinked are absorbing, hence at most one end-of-life report per expectation over every history. "
         "The whole step protocol of the accept path is a premise of this property and is decided by this check too: forbidden test first and unconditional, sequence check before the count, exactly one count, saturation test after the count, the expectation has left its list and its sequences before any user code runs. "
         "The ALLOW_CALL / FORBID_CALL macro families (C++14 and _V spellings, NAMED and unnamed, with and without modifiers) are token-equal to REQUIRE_CALL with TIMES(0, unbounded) / TIMES(0). "
         "The limit plumbing of every TIMES / RT_TIMES spelling (C03.b) is a premise of 'below its lower bound' and is decided by this check too.",
    design_ref="DESIGN.md section 4, C04", note="Not decided: message wording.")
CHECKS["C08"] = dict(
    technique="typestate automata over the dispatch function and over every function that evaluates WITH clauses "
              "(edge-sensitive), protocol automaton of run_actions, who-may-append, compile-time type witnesses",
    text="On every accepted path of every dispatch instantiation the selected candidate's actions run exactly once and "
         "then its return expression exactly once, whose result is what the mock function returns; the call is counted "
         "before the first side effect; side effects and conditions are appended in declaration order and iterated "
         "over the whole list, and once the call has been counted no path leaves run_actions without passing the "
         "side-effect loop; in every function that evaluates WITH clauses no clause is evaluated after one has "
         "failed; reference returns keep object identity by type. "
         "The whole step protocol of the accept path is a premise of this property and is decided by this check too: forbidden test first and unconditional, sequence check before the count, exactly one count, saturation test after the count, the expectation has left its list and its sequences before any user code runs. "
         "In every library function the dispatch function's exception handlers call, each deliberate raise (throw;, the standard rethrow helpers) lies lexically inside a try block with a catch-all, so recording an exception cannot replace it on its way to the caller. "
         "WITH clauses are evaluated only inside the walk over the clause list and the walk skips no element (declaration order).",
    design_ref="DESIGN.md section 4, C08", note="Not decided: what the user's expressions compute.")

CHECKS["C01"] = dict(
    technique="CFG dominance and argument data-flow on the dispatch function, noreturn automaton with effect "
              "exclusion over the no-match reporter's transitive callees, who-may-access, protocol automaton",
    text="In every dispatch instantiation the candidate comes from one selection call over the active list of the "
         "mock function's own expectations object and every use is dominated by the non-null edge; on the null edge "
         "only the no-match reporter runs, and every path of it is exactly one fatal report then abort, reaching no "
         "count, list, sequence, action or OK event; a run_actions path that ends in a fatal report has changed "
         "nothing; saturated expectations are never candidates; matching is the conjunction over all parameters and "
         "all WITH conditions (decided on matches() whether the WITH loop lives in a helper or in matches() itself); "
         "expired expectations are unlinked on every path; every TIMES / RT_TIMES form sets the limits it says "
         "(every arity of the multiplicity constructors, default arguments included). "
         "The whole step protocol of the accept path is a premise of this property and is decided by this check too: forbidden test first and unconditional, sequence check before the count, exactly one count, saturation test after the count, the expectation has left its list and its sequences before any user code runs. "
         "The list order (newest first) survives the move of a movable mock: the list's move constructor is interpreted over every canonical ring shape (C14.g). "
         "The parameter fold is also decided at the C++11 level (the library's own make_index_sequence): the indices asked are those of the parameter tuple.",
    design_ref="DESIGN.md section 4, C01",
    note="The 'iff' composes C02 (which candidate), C05 (sequence permission), C07 (forbidden); the lifting from "
         "'per call' to 'every history' is the list invariant written in DESIGN.md.")
CHECKS["C02"] = dict(
    technique="decision table of the candidate-loop step by interpreting its extracted CFG over all atom valuations "
              "(TABLE, acceptable-decision sets), who-may-call, per-MAKE_MOCK routing agreement, type witnesses",
    text="One iteration of the selection loop takes the decision the property prescribes on every valuation of "
         "(matches, cost, candidate present, lowest cost); new expectations go to the front of exactly the list "
         "their tag selects; each generated mock function dispatches on the member whose active list its tag "
         "returns and forwards its parameters in order (every MAKE_MOCK in the analysed units); signatures are "
         "isolated by type; cost/order tables are those of C05; the list primitives and the move of a whole list keep "
         "the element order (SHAPE). "
         "The step protocol of both sequence-step consumers (a matched call, a watched destruction) is decided by this check too: what a step that happened leaves pending is what later candidates are charged. "
         "IN_SEQUENCE keeps the limits set so far (C03.b.carry, several limit shapes): 'live and unsaturated' is read off them.",
    design_ref="DESIGN.md section 4, C02",
    note="Global optimality of the selection is the loop invariant written in DESIGN.md over the checked step.")
CHECKS["C03"] = dict(
    technique="truth tables of the count predicates and interpretation of the limit-plumbing functions over finite "
              "valuations (TABLE), compile-time and preprocessor witnesses, protocol automaton",
    text="is_satisfied / is_saturated / is_forbidden equal count>=min / count==max / max==0 on every valuation of a "
         "finite order abstraction; set_limits, increment_call (+1), default limits (1,1,0), rt_multiplicity and "
         "TIMES plumbing store what the property says; AT_LEAST/AT_MOST/ALLOW_CALL expand to the documented bounds; "
         "an accepted call is counted exactly once and on saturation retires, unlinks and is appended to the "
         "saturated list; RT_TIMES throws std::logic_error exactly when high<low, before any effect. "
         "The whole step protocol of the accept path is a premise of this property and is decided by this check too: forbidden test first and unconditional, sequence check before the count, exactly one count, saturation test after the count, the expectation has left its list and its sequences before any user code runs. "
         "The predicate tables (is_satisfied, is_saturated, is_forbidden) hold for the base implementation and for every override. "
         "IN_SEQUENCE keeps the limits: the creation site of the replacement handler and the constructor it calls (base constructors and helpers followed) are interpreted with an old handler of (min 5, max 7) and must store exactly these. "
         "The public queries read the predicate while a lock object is alive (a discarded get_lock() is reported).",
    design_ref="DESIGN.md section 4, C03", note="count<=max is an invariant from C03.d, used as don't-care rows.")
CHECKS["C06"] = dict(
    technique="decision table of the is_completed step (TABLE, loop-idiom independent), interpretation of the sequence "
              "teardown over abstract pending lists of 0..3 elements with per-element atoms, protocol automaton for "
              "leave-on-saturation, dominance for leave-on-release",
    text="is_completed returns false exactly at the first unsatisfied pending expectation and true otherwise; "
         "~sequence_type lists every pending expectation once in list order whatever its state, unlinks each, and sends "
         "exactly one non-fatal report after the last one iff the list was not empty; both step consumers leave their "
         "sequences on saturation, test saturation only after the call / destruction has been counted, and retire "
         "predecessors only together with counting; a released node unlinks on every path. "
         "The whole step protocol of the accept path is a premise of this property and is decided by this check too: forbidden test first and unconditional, sequence check before the count, exactly one count, saturation test after the count, the expectation has left its list and its sequences before any user code runs. "
         "The teardown of one sequence takes the pending expectations out of that sequence only (a handler-level retire there is reported). "
         "IN_SEQUENCE keeps the limits set so far (C03.b.carry): 'reached its lower bound' is read off them.",
    design_ref="DESIGN.md section 4, C06", note="The query's lock is C12.")
CHECKS["C07"] = dict(
    technique="preprocessor token equality of the FORBID macro family, protocol automaton, constant evaluation of "
              "the count predicates, compiler-decided witnesses for the compile-time bans",
    text="Every FORBID_CALL spelling is REQUIRE_CALL + TIMES(0); the forbidden-call report is one fatal report with "
         "the expectation's location, name and the actual arguments, sent on the is_forbidden edge before any state "
         "change, so the expectation stays active and each later matching call takes the same path; at (0,0,0) it is "
         "satisfied and saturated; actions and IN_SEQUENCE on it do not compile. "
         "The whole step protocol of the accept path is a premise of this property and is decided by this check too: forbidden test first and unconditional, sequence check before the count, exactly one count, saturation test after the count, the expectation has left its list and its sequences before any user code runs. "
         "The predicate tables (is_satisfied, is_saturated, is_forbidden) hold for the base implementation and for every override. "
         "The list order (newest first) survives the move of a movable mock: the list's move constructor is interpreted over every canonical ring shape (C14.g).",
    design_ref="DESIGN.md section 4, C07", note="Which calls it is the candidate for is C01/C02.")

CHECKS["C10"] = dict(
    technique="truth tables obtained by interpreting each matcher's extracted return expression / fold over all "
              "valuations of a finite abstraction (TABLE), factory-predicate-printer agreement, dominance of null guards, "
              "compile-time type witness for the plain-value comparison",
    text="Each scalar matcher and combinator is a one-expression predicate; its table over ord(x,v) in {<,=,>}, "
         "booleans and null/non-null equals the mathematical predicate for eq/ne/lt/le/gt/ge, _, ANY, !m, *m (no "
         "dereference of null), any_of/all_of/none_of (1..3 operands, uniform pack expansion), MEMBER_IS and re() "
         "(non-null and found over [begin,end) with the stored flags; the empty string is a string); operands reach "
         "the predicate as (actual, stored...) for typed and duck-typed matchers alike; a plain-value operand reaches "
         "operator== unconverted whenever it is comparable as it is (type witness over integral / floating / "
         "string / pointer pairs). This is the full predicate-level property; the user type's own operators and std::regex_search are opaque. "
         "Composing a matcher from named (lvalue) operands never moves from them. "
         "The dereferencing matcher's table is also decided for a nullable user pointer type that is not is_null_comparable (helpers the guard is factored into are interpreted from their bodies). "
         "The code under matcher/ keeps no mutable static state: a verdict does not depend on which matchers were created or asked before.",
    design_ref="DESIGN.md section 4, C10", note="Nesting follows from compositionality: every combinator's table is "
    "over the results of its operands' matches().")
CHECKS["C13"] = dict(
    technique="who-may-write on the monitor slot, typestate automata over ~deathwatched / ~lifetime_monitor / notify, "
              "return-value data-flow of the queries",
    text="The monitor slot is written only by operator=(T*) (called only from trompeloeil_expect_death) and starts "
         "null in every constructor; copy/move construction does not read the source and copy/move assignment neither "
         "writes the slot nor hands it to anything (swap, exchange); a dying object notifies a live requirement exactly once and reports nothing itself, or reports "
         "exactly one non-fatal unexpected destruction; a released requirement reports one non-fatal 'still alive' "
         "and detaches iff its object is alive, and never touches the slot of a dead object; notify marks the "
         "requirement died and counts the destruction on every path. "
         "The whole step protocol of the accept path is a premise of this property and is decided by this check too: forbidden test first and unconditional, sequence check before the count, exactly one count, saturation test after the count, the expectation has left its list and its sequences before any user code runs.",
    design_ref="DESIGN.md section 4, C13", note="Several simultaneous requirements on one object: known finding (F12).")

CHECKS["C09"] = dict(
    technique="generated compile-time parametricity witnesses (pairwise distinct opaque parameter types, all arities "
              "0..15, four macro families, eight clause kinds) with negative controls; argument data-flow in the "
              "dispatch function; lambda capture-default table by originating macro",
    text="For every arity 0..15 and MAKE_MOCK / MAKE_CONST_MOCK / IMPLEMENT_MOCK / IMPLEMENT_CONST_MOCK, with parameters "
         "passed by value, &, const&, &&, pointer and move-only, decltype(_k) inside WITH, SIDE_EFFECT, RETURN, THROW "
         "and their LR_ twins is remove_reference_t<Pk>& and _k beyond the arity is illegal_argument; because the "
         "types are pairwise distinct and opaque every permutation, off-by-one or copy fails to compile, so the "
         "witness holds for all argument values. The tuple is built in place from the forwarded parameters in order; "
         "plain clause macros capture [=], LR_ ones [&]. Enumerated space is exhaustive. "
         "The C++11 macro API (corpus/core11.cpp parsed at -std=c++11) is subject to the same capture rule. "
         "Copy-trap witness: a type whose copy operations do not compile when used is passed by rvalue and by value through the parameter tuple, _N, WITH, SIDE_EFFECT and RETURN(std::move(_N)); a control that must copy is rejected. "
         "The positional-alias witness is also compiled for the C++11 macro API at -std=c++11.",
    design_ref="DESIGN.md section 4, C09", note="Compiler front ends are the oracle.")
CHECKS["C17"] = dict(
    technique="who-may-call on the trace sink, structural checks of the dispatch function's agent (construction "
              "point, data-flow of tracer / location / name, ordering), handler order, save/restore pairing, "
              "ownership of the agent's record",
    text="The trace sink is called from exactly one site, the scope-bound agent's destructor, iff the tracer that was "
         "current when the accepted call started is non-null; the agent is created on the accepted path from "
         "tracer_obj() and the candidate's location and text, records all parameters before the actions, the return "
         "value or the exception (what() before unknown; the actions and the return handler run lexically inside the try block whose catch-all records it), and owns its record (no shared state across nested calls); "
         "tracers save and restore their predecessor and cannot be copied; only set_tracer writes the current tracer. " 
         "The current-tracer object handed out by its accessor has static storage duration and is not thread_local. "
         "In every library function the dispatch function's exception handlers call, each deliberate raise (throw;, the standard rethrow helpers) lies lexically inside a try block with a catch-all, so recording an exception cannot replace it on its way to the caller. "
         "Where the agent prints its result parameter no move / forward of that parameter has happened on any path (the record shows the returned value, not a moved-from object).",
    design_ref="DESIGN.md section 4, C17", note="Not decided: text layout; non-nested tracer lifetimes (C14 finding).")
CHECKS["C18"] = dict(
    technique="edge dominance of the null guard in every print() instantiation, insertion census in structural "
              "streamers, save/restore pairing and installed constants of stream_sentry, sentry dominance of direct "
              "insertions, compile-time dispatch-trait witnesses",
    text="In every instantiation of print() the printer is reached only on the non-null edge of is_null and 'nullptr' "
         "is printed on the other; tuple, pair and collection streamers insert only separators directly and print "
         "every element through print(), so the guard holds at every nesting depth; stream_sentry exchanges width / "
         "flags / fill with 0 / dec|left / ' ' and restores each; every direct insertion of a leaf or of hex-dump "
         "bytes is dominated by a live sentry; opaque values are dumped as sizeof(T) bytes from their address: the byte walk covers exactly [begin, begin+size) once each in address order (span + for_each / range-for, or a counted index loop), every byte is read as unsigned char and reaches a numeric inserter only through types that represent 0..255; "
         "dispatch traits hold over the listed type family. " 
         "What a collection printer hands to print() for each element has the collection's element type (no array-to-pointer decay, no conversion), so nested collections recurse into the collection printer. "
         "Hex-dump line breaks: both newline guards are interpreted for sizes 1..40 - after the header exactly when the object is larger than 8 bytes, after byte k exactly when k mod 16 == 15. "
         "No print / printer / streamer instantiation has a top-level-const value type (printer selection is on the unqualified type, also for reference_wrapper<const X>).",
    design_ref="DESIGN.md section 4, C18", note="Not decided: hex-dump digits and line breaks for every size.")

CHECKS["C14"] = dict(
    technique="census of pointer/reference members against a borrow table with per-kind structural rules (detach in "
              "the referent's destructor, guarded use), new-reaches-owner data-flow, who-may-delete, loop-order checks, "
              "suspension-point analysis of library coroutines and lifetime of what their reference parameters are bound to, abstract interpretation of the list primitives over "
              "canonical ring shapes (SHAPE)",
    text="Every pointer-like member of every library class is classified (unclassified = analysis broken) and its kind's "
         "rule holds: nodes unlink in their destructor on every path, handles are contained in their handler, the "
         "monitor/object borrows are detached and guarded; every new reaches an owning sink first; only the disposer "
         "deletes; destroying loops advance before disposing; unlink, push_front, push_back and node move-assignment "
         "yield a well-formed ring with the specified order on every canonical ring shape, and so does moving a whole "
         "list (defaulted or hand-written); the process-wide mutex lives in storage that is never destroyed "
         "(objects with static storage lock it from their destructors). Three borrows violate "
         "their rule on the pinned tree and are recorded as known findings (sequence handle -> sequence object, tracer "
         "-> previous tracer, handler coroutine's parameter reference). "
         "A sequence's destructor leaves its borrowing list of handles empty whatever the handles' state; C14.f has one obligation per reference parameter of a library coroutine. "
         "Only the monitor writes a watched object's monitor slot (C13.a), so moving or assigning to the object leaves the monitor's back-reference valid.",
    design_ref="DESIGN.md section 4, C14",
    note="Decides the listed structural necessary conditions, not memory safety of every history as a whole.")
CHECKS["C20"] = dict(
    technique="CFG structure of the handler coroutine (yield loop, single co_return), shared-list data-flow of the "
              "CO_ clause handlers, same-dispatch census, compile-time trait and clause-order witnesses",
    text="Coroutine-returning mock functions use the one generic dispatch (so all call-time obligations of C01-C08, C16, "
         "C17 are evaluated on them too); the handler coroutine yields each element of its own yield list in list order "
         "with no early exit and then co_returns the return expression exactly once, evaluating clauses inside the "
         "coroutine body (the body may be a same-class coroutine the handler plainly forwards to, whose reference "
         "parameters must then not be bound to temporaries or locals of the forwarder); CO_YIELD appends to, and CO_RETURN/CO_THROW share, the expectation's single yield list for "
         "every clause order; detection traits hold for eager/lazy tasks, operator co_await tasks and generators; all "
         "legal clause permutations compile and misuse is rejected with the documented text - on coroutine functions, and "
         "every coroutine clause on an ordinary function in every position relative to the ordinary clauses. "
         "Reference parameters of the handler coroutine are decided one by one (the known finding concerns `params` only). "
         "A handler instantiated for a coroutine type whose promise accepts co_yield (overloaded and templated yield_value included) has the yield loop.",
    design_ref="DESIGN.md section 4, C20",
    note="Suspension/resumption and where exceptions surface are language semantics; parameter lifetime across "
         "suspension is a known finding.")

CHECKS["C11"] = dict(
    technique="algorithm-identity and argument data-flow checks, dominance of length guards over iterator "
              "dereference / advance, truth tables of the verdict expressions (TABLE), typestate automaton over the "
              "four first-fit loops, fold-order check, type witnesses",
    text="range_all_of / none_of / any_of, range_is(range), starts/ends_with(range) are the named standard algorithms over "
         "both bounded ranges with the element predicate param_matches(comparator, ref(element)); in the element-list "
         "forms every dereference or advance of the range iterator is dominated by the not-at-end edge and the suffix "
         "forms advance by size-n only when size>=n; every checker's final verdict equals its specification on all "
         "valuations; the first-fit loops consume exactly one pending matcher per matched element by swap-remove, "
         "permutation stops at the first unmatched element and includes does not, with no other exit; element lists "
         "are folded completely and in order; C arrays are stored as spans, containers by value. "
         "For the listed-elements forms of range_is / range_starts_with: the verdicts of the elements are conjoined (an earlier mismatch is never overwritten) and every listed element consumes exactly one member of the range whether it matches or not. "
         "A quantifier checker written as a search (find_if / find_if_not compared with begin or end) is decided against the quantifier for every vector of element verdicts up to length 3.",
    design_ref="DESIGN.md section 4, C11",
    note="Not decided: which of several overlapping matchers the greedy first fit assigns (the statement defers to the "
         "documented first-fit), nor anything about concrete multisets.")

NOT_APPLICABLE = {}


def main():
    props = [json.loads(l) for l in open(os.path.join(VERIF, "properties.jsonl"))]
    ids = [p["id"] for p in props]
    checks = []
    na = []
    for pid in ids:
        if pid in CHECKS:
            c = CHECKS[pid]
            checks.append({
                "property_id": pid,
                "quick_cmd": "./check %s --tier quick" % pid,
                "thorough_cmd": "./check %s --tier thorough" % pid,
                "evidence_file": "/verif/evidence/%s.json" % pid,
                "replay_cmd_template": "./check %s --replay {path}" % pid,
                "engine": "tvfacts+rules",
                "level_claimed": {"category": "other", "text": c["text"], "design_ref": c["design_ref"]},
                "level_note": c.get("note", "") + " " + LEVEL_NOTE,
                "technique": "static analysis: " + c["technique"],
            })
        else:
            na.append({"property_id": pid,
                       "reason": NOT_APPLICABLE.get(pid, "check under construction (DESIGN.md section 4); "
                                                         "not claimed until its rules are committed")})
    m = {
        "version": 1,
        "setup_cmd": "python3 -c \"import sys; sys.path.insert(0,'/verif'); from engine import facts; facts.ensure_plugin()\"",
        "hooks": {
            "guard": "TROMPELOEIL_VERIF",
            "enable": "no hooks: the extractor plugin reads the unmodified headers of /repo/include",
            "baseline_off_cmd": "cmake --build /repo/_build && /repo/_build/test/self_test && /repo/_build/test/thread_terror && /repo/_build/test/custom_recursive_mutex",
            "source_commits": [],
            "add_only": True,
        },
        "engines": [
            {"name": "tvfacts+rules", "path": "/verif/extractor/tvfacts.cc, /verif/engine, /verif/rules",
             "serves_properties": sorted(CHECKS),
             "kind_free_text": "clang-14 frontend plugin (instantiated AST -> CFG/event facts) + python rule "
                               "engine (typestate automata over CFGs, truth tables of predicates, who-may-call, "
                               "lock-state dataflow) + compiler-decided witness programs"},
        ],
        "checks": checks,
        "notes": "Static analysis only; see DESIGN.md. exit 2 = analysis broken (anchor vanished / unit does "
                 "not parse), never a pass or a violation. known_findings.json lists recorded and fixed defects.",
        "not_applicable": na,
    }
    with open(os.path.join(VERIF, "MANIFEST.json"), "w") as fh:
        json.dump(m, fh, indent=1)
    print("MANIFEST.json: %d checks, %d not claimed" % (len(checks), len(na)))


if __name__ == "__main__":
    main()
