#!/usr/bin/env python3
"""tools/dumpfn.py <unit> <erased-name-regex> [max]  -- print CFG facts of matching functions"""
import json, sys, os, re
sys.path.insert(0, os.path.dirname(os.path.dirname(os.path.abspath(__file__))))
from engine import facts
tu = facts.load(sys.argv[1])
mx = int(sys.argv[3]) if len(sys.argv) > 3 else 1
n = 0
for f in tu.find_re(sys.argv[2]):
    print("==", f.id, f.q, f.pat, "kind", f.kind)
    for b in f.rec["blocks"]:
        t = b.get("term")
        print(" B%d -> %s %s %s" % (b["id"], b["succ"], ("catch " + b["catch"]) if "catch" in b else "", (t["kind"] + " " + json.dumps(t.get("cond"))[:300]) if t else ""))
        for e in b["ev"]:
            e = {k: v for k, v in e.items() if k not in ("_qe",)}
            print("     ", json.dumps(e)[:int(os.environ.get("W", "260"))])
    n += 1
    if n >= mx: break
