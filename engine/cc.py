"""Compiler front-end invocations (never produces or runs an executable)."""
import os
import subprocess
from concurrent.futures import ThreadPoolExecutor

from .facts import INCLUDE

JOBS = int(os.environ.get("VERIF_JOBS", "16"))


def syntax_cmd(compiler, std, src, extra=()):
    cmd = [compiler, "-std=" + std, "-I" + INCLUDE, "-fsyntax-only", "-w"]
    if "clang" in compiler:
        cmd += ["-ferror-limit=0", "-ftemplate-backtrace-limit=0", "-fmacro-backtrace-limit=1",
                "-fno-caret-diagnostics", "-fno-color-diagnostics"]
    else:
        cmd += ["-fmax-errors=0", "-ftemplate-backtrace-limit=0", "-fno-diagnostics-show-caret",
                "-fdiagnostics-color=never"]
    cmd += list(extra)
    if src == "-":
        cmd += ["-x", "c++", "-"]
    else:
        cmd.append(src)
    return cmd


def run_one(job):
    cmd, stdin = job
    try:
        r = subprocess.run(cmd, input=stdin, capture_output=True, text=True, timeout=600)
        return r.returncode, r.stdout + r.stderr
    except subprocess.TimeoutExpired:
        return -9, "timeout"


def run_many(jobs):
    """jobs: list of (cmd, stdin-or-None) -> list of (rc, output) in order."""
    with ThreadPoolExecutor(max_workers=JOBS) as ex:
        return list(ex.map(run_one, jobs))


def grep(pattern, text, extended=True):
    """Faithful to the repo's verify script: egrep for pass rules, grep -e for exceptions."""
    r = subprocess.run(["grep", "-q", "-E" if extended else "-e", pattern] if extended else
                       ["grep", "-q", "-e", pattern], input=text, text=True, capture_output=True)
    return r.returncode == 0
