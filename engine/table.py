"""TABLE: predicate abstraction by interpreting one expression tree - or one pass over a small
CFG region - on every valuation of a finite set of atoms.

Nothing of the analysed program is executed.  The interpreter walks the *extracted* CFG of a
function over abstract values: calls are answered by an oracle supplied by the rule (an atom
valuation), locals are tracked, branch conditions are evaluated on the abstract state.  Anything the
interpreter does not understand raises Unknown -> analysis broken, never a verdict."""
from .facts import erase


class Unknown(Exception):
    pass


MAXINT = {}


def lit_int(t):
    if t[1] == "max":
        return (1 << int(t[2])) - 1
    return int(t[1])


def event_tree(e):
    """the expression tree an event of kind call/ctor stands for (as the extractor serialises it)"""
    k = e["e"]
    if k == "call":
        if "op" in e:
            args = ([e["recv"]] if "recv" in e else []) + list(e.get("args") or [])
            return ["opcall", e.get("callee"), e.get("q", ""), e["op"], args]
        if "recv" in e:
            return ["mcall", e.get("callee"), e.get("q", ""), e["recv"], list(e.get("args") or []), bool(e.get("virt"))]
        if e.get("indirect"):
            return ["icall", e.get("target"), list(e.get("args") or [])]
        return ["call", e.get("callee"), e.get("q", ""), list(e.get("args") or [])]
    if k == "ctor":
        return ["ctor", e.get("callee"), e.get("type", ""), list(e.get("args") or []), bool(e.get("elidable"))]
    return None


def contains(tree, sub):
    if tree == sub:
        return True
    if isinstance(tree, list):
        for x in tree:
            if isinstance(x, list) and contains(x, sub):
                return True
    return False


def event_trees(e):
    for key in ("args", "recv", "init", "lhs", "rhs", "x", "target"):
        v = e.get(key)
        if v is not None:
            yield v


def root_calls(block):
    """indices of call events in a block that are not sub-expressions of a later event or of the
    block's terminator condition (i.e. expression statements)"""
    evs = block["ev"]
    roots = set()
    for i, e in enumerate(evs):
        if e["e"] not in ("call", "ctor"):
            continue
        t = event_tree(e)
        used = False
        for later in evs[i + 1:]:
            for lt in event_trees(later):
                if contains(lt, t):
                    used = True
                    break
            if used:
                break
        if not used:
            term = block.get("term")
            if term and term.get("cond") is not None and contains(term["cond"], t):
                used = True
        if not used:
            roots.add(i)
    return roots


class Interp:
    """oracle(kind, tree, interp) -> value or raises Unknown
       kinds: 'call' (call-like tree), 'member', 'param', 'gvar', 'this'"""

    def __init__(self, fn, oracle, effects=None):
        self.fn = fn
        self.oracle = oracle
        self.env = {}
        self.effects = effects if effects is not None else []
        self.steps = 0

    # ------------------------------------------------------------------ expressions
    def ev(self, t):
        if t is None:
            raise Unknown("null expression")
        if not isinstance(t, list) or not t:
            raise Unknown("bad tree %r" % (t,))
        k = t[0]
        if k == "int":
            return lit_int(t)
        if k == "bool":
            return bool(t[1])
        if k == "null":
            return None
        if k == "char":
            return int(t[1])
        if k == "var":
            if t[1] in self.env:
                return self.env[t[1]]
            return self.oracle("var", t, self)
        if k == "cast":
            return self.ev(t[2])
        if k == "u":
            op = t[1]
            if op == "!":
                return not self.truth(self.ev(t[2]))
            if op == "-":
                return -self.ev(t[2])
            if op == "&":
                try:
                    v = self.ev(t[2])
                    if isinstance(v, tuple) and v and v[0] in ("elem", "obj"):
                        return ("ptr", v)
                except Unknown:
                    pass
                return ("addr", self.lval(t[2]))
            if op == "*":
                v = self.ev(t[2])
                if isinstance(v, tuple) and v and v[0] == "addr":
                    return self.load(v[1])
                if isinstance(v, tuple) and v and v[0] == "iter":
                    return ("elem", "cur")      # current element of the iterated range
                if isinstance(v, tuple) and v and v[0] == "ptr":
                    return v[1]
                return self.oracle("deref", t, self)
            if op in ("++", "--"):
                # value of pre/post increment inside an expression
                lv = self.lval(t[2])
                old = self.load(lv)
                new = old + (1 if op == "++" else -1)
                self.store(lv, new)
                return new
            raise Unknown("unary " + op)
        if k == "b":
            op = t[1]
            if op == "&&":
                return self.truth(self.ev(t[2])) and self.truth(self.ev(t[3]))
            if op == "||":
                return self.truth(self.ev(t[2])) or self.truth(self.ev(t[3]))
            if op == "=":
                v = self.ev(t[3])
                self.store(self.lval(t[2]), v)
                return v
            if op == ",":
                self.ev(t[2])
                return self.ev(t[3])
            a = self.ev(t[2])
            b = self.ev(t[3])
            return self.binop(op, a, b)
        if k == "?:":
            return self.ev(t[2]) if self.truth(self.ev(t[1])) else self.ev(t[3])
        if k == "initlist":
            if len(t[2]) == 1:
                return self.ev(t[2][0])
            if not t[2]:
                return 0
            return tuple(self.ev(x) for x in t[2])
        if k == "stdinitlist":
            return self.ev(t[1])
        if k == "zero":
            return 0
        if k == "ctor" and len(t) >= 5 and t[4] is True and len(t[3]) == 1:
            return self.ev(t[3][0])       # an elidable copy (C++14 spelling of initialisation from a prvalue)
        if k in ("call", "mcall", "opcall", "ctor", "icall"):
            return self.oracle("call", t, self)
        if k == "member":
            # a member this very activation has stored to reads back what was stored
            key = ("member", t[1], repr(t[2]))
            for eff in reversed(self.effects):
                if eff[0] == "store" and eff[1] == key:
                    return eff[2]
            return self.oracle(k, t, self)
        if k in ("param", "gvar", "this", "enum", "str", "lambda", "fnref", "method"):
            return self.oracle(k, t, self)
        if k == "new":
            try:
                return self.oracle("new", t, self)
            except Unknown:
                raise
            except Exception:
                raise Unknown("expression kind new")
        raise Unknown("expression kind " + k)

    def _sub_ctor(self, x, depth=0):
        tu = getattr(self.oracle, "tu", None)
        if tu is None or not isinstance(x, list) or x[:1] != ["ctor"] or depth > 3:
            return
        sub = tu.fns.get(x[1])
        if sub is None or not sub.has_body or sub.id == self.fn.id:
            return
        vals = {}
        for i, a in enumerate(x[3]):
            try:
                vals[i] = self.ev(a)
            except Unknown:
                pass
        mk = getattr(self.oracle, "with_params", None)
        if mk is None:
            return
        child = Interp(sub, mk(vals), effects=self.effects)
        child._depth = depth + 1
        child.run()
        self.steps += child.steps

    @staticmethod
    def truth(v):
        if isinstance(v, tuple):
            if v and v[0] == "opaque":
                raise Unknown("branch on a value the rule does not model: %r" % (v,))
            return True
        return bool(v)

    @staticmethod
    def binop(op, a, b):
        try:
            if op == "==":
                return a == b
            if op == "!=":
                return a != b
            if op == "<":
                return a < b
            if op == "<=":
                return a <= b
            if op == ">":
                return a > b
            if op == ">=":
                return a >= b
            if op == "+":
                return a + b
            if op == "-":
                return a - b
            if op == "*":
                return a * b
            if op == "&":
                return a & b
            if op == "|":
                return a | b
            if op == "^":
                return a ^ b
            if op in ("%", "/") and isinstance(a, int) and isinstance(b, int) and not isinstance(a, bool) and b != 0 \
                    and a >= 0 and b > 0:
                return a % b if op == "%" else a // b
            if op in ("<<", ">>") and isinstance(a, int) and isinstance(b, int) and 0 <= b < 64 and a >= 0:
                return (a << b) if op == "<<" else (a >> b)
        except TypeError:
            raise Unknown("operands of %s: %r %r" % (op, a, b))
        raise Unknown("binary " + op)

    def lval(self, t):
        if t[0] == "var":
            return ("var", t[1])
        if t[0] == "cast":
            return self.lval(t[2])
        if t[0] == "member":
            return ("member", t[1], repr(t[2]))
        if t[0] == "param":
            return ("param", t[1])
        raise Unknown("lvalue " + t[0])

    def load(self, lv):
        if lv[0] == "var":
            if lv[1] in self.env:
                return self.env[lv[1]]
            raise Unknown("uninitialised local")
        return self.oracle("load", list(lv), self)

    def store(self, lv, v):
        if lv[0] == "var":
            self.env[lv[1]] = v
        else:
            self.effects.append(("store", lv, v))

    # ------------------------------------------------------------------ statements
    def run(self, start=None, stop_blocks=(), max_steps=400, event_hook=None):
        """Interpret from block `start` (default: entry) until a return, the exit block, or a block
        in stop_blocks is about to be entered.  -> ('return', value) | ('stop', block id) | ('exit', None)"""
        fn = self.fn
        bid = fn.entry if start is None else start
        first = True
        while True:
            self.steps += 1
            if self.steps > max_steps:
                raise Unknown("step limit")
            if not first and bid in stop_blocks:
                return ("stop", bid)
            first = False
            b = fn.blocks[bid]
            roots = root_calls(b)
            for ei, e in enumerate(b["ev"]):
                k = e["e"]
                if event_hook is not None:
                    r = event_hook(e, self)
                    if r == "skip":
                        continue
                if k == "decl":
                    if e.get("init") is not None:
                        self.env[e["var"]] = self.ev(e["init"])
                    else:
                        self.env[e["var"]] = None
                elif k == "assign":
                    v = self.ev(e["rhs"])
                    if e.get("op") == "=":
                        self.store(self.lval(e["lhs"]), v)
                    else:
                        lv = self.lval(e["lhs"])
                        self.store(lv, self.binop(e["op"][:-1], self.load(lv), v))
                elif k == "incdec":
                    lv = self.lval(e["x"])
                    cur = self.load(lv)
                    if isinstance(cur, int) and not isinstance(cur, bool):
                        self.store(lv, cur + (1 if e["op"] == "++" else -1))
                    elif isinstance(cur, tuple) and cur and cur[0] == "iter":
                        if cur[1] == "end":
                            raise Unknown("increment of the end iterator")
                        if not str(cur[1]).startswith("__"):
                            self.store(lv, ("iter", "next" if cur[1] != "next" else "skipped"))
                    else:
                        raise Unknown("increment of %r" % (cur,))
                elif k == "return":
                    return ("return", self.ev(e["x"]) if e.get("x") is not None else None)
                elif k == "throw":
                    return ("throw", e.get("type", "rethrow"))
                elif k == "init" and "field" in e:
                    self.effects.append(("store", ("member", e["field"], "['this']"), self.ev(e["x"])))
                elif k == "init" and (e.get("delegating") or "base" in e):
                    # a delegating / base-class constructor initialises (part of) this very object: when the oracle
                    # knows the unit, that constructor is interpreted with the arguments given and its stores are ours
                    self._sub_ctor(e.get("x"))
                # calls as statements are evaluated when they are the root of an expression statement;
                # sub-expressions are evaluated through their parents.  We only record effects of calls
                # that the oracle flags as effectful.
                elif k in ("call", "ctor") and ei in roots:
                    self.ev(event_tree(e))
            succ = b.get("succ") or []
            term = b.get("term")
            if bid == fn.exit or not succ:
                return ("exit", None)
            if len(succ) == 1:
                nxt = succ[0]
            elif term and term.get("cond") is not None and len(succ) == 2:
                v = self.truth(self.ev(term["cond"]))
                nxt = succ[0] if v else succ[1]
            else:
                raise Unknown("unsupported terminator in B%d of %s" % (bid, fn.q))
            if nxt is None:
                raise Unknown("pruned edge taken")
            bid = nxt


def product(domains):
    """domains: dict name -> list of values -> iterate dicts"""
    names = sorted(domains)
    def rec(i, cur):
        if i == len(names):
            yield dict(cur)
            return
        for v in domains[names[i]]:
            cur[names[i]] = v
            yield from rec(i + 1, cur)
    yield from rec(0, {})


def eval_return_expr(fn, oracle):
    """For a single-return-expression function: interpret it from entry."""
    it = Interp(fn, oracle)
    kind, val = it.run()
    if kind != "return":
        raise Unknown("%s did not reach a return" % fn.q)
    return val
