"""INLINE: helper-insensitive view of a function.

Rules that look at the shape of one function (which calls it makes, in which order, on which paths) must not
depend on whether a stretch of that function was factored out into a helper.  `view()` returns a copy of the
function's fact record in which every direct call of a *library helper the rules do not name* is replaced by the
helper's own CFG: parameters are replaced by the argument expressions, `this` by the receiver expression, locals
are renumbered, every `return x` becomes an assignment to a fresh local `__ret` that the continuation reads in
place of the call expression.  Functions the reference tree already had (known_functions.txt), virtual calls,
constructors, destructors, operators, coroutines, recursion and user code are never inlined - on the reference
tree the view of every function is the function itself.

Nothing is executed; this is a transformation of the extracted facts."""
import copy
import os
import re

from . import table
from .facts import Fn, erase, VERIF

TREE_KEYS = ("args", "recv", "init", "lhs", "rhs", "x", "base", "target")
MAX_BLOCKS = 60

_keep = None


def keep_names():
    """The library functions of the reference tree (engine/known_functions.txt, written by tools/mkknown.py):
    these stay calls.  A library function that is not listed was introduced by a later change - a helper some
    code was factored into - and is looked through."""
    global _keep
    if _keep is None:
        with open(os.path.join(VERIF, "engine", "known_functions.txt")) as fh:
            _keep = set(l.strip() for l in fh if l.strip())
    return _keep


def _sub(t, pmap, this_tree, off):
    if isinstance(t, list):
        if t and isinstance(t[0], str):
            if t[0] == "param" and len(t) >= 2 and isinstance(t[1], int) and t[1] in pmap:
                return copy.deepcopy(pmap[t[1]])
            if t[0] == "this" and this_tree is not None:
                return copy.deepcopy(this_tree)
            if t[0] == "var" and len(t) >= 2 and isinstance(t[1], int):
                return ["var", t[1] + off] + list(t[2:])
        return [_sub(x, pmap, this_tree, off) for x in t]
    return t


def _replace(t, old, new):
    if t == old:
        return copy.deepcopy(new)
    if isinstance(t, list):
        return [_replace(x, old, new) for x in t]
    return t


def _inlinable(tu, caller, e, stack, keep):
    if e["e"] != "call" or e.get("virt") or e.get("indirect") or e.get("op"):
        return None
    cid = e.get("callee")
    callee = tu.fns.get(cid) if cid is not None else None
    if callee is None or not callee.has_body or not callee.is_lib or callee.is_std:
        return None
    if callee.kind not in ("function", "method") or callee.rec.get("coro") or callee.id in stack:
        return None
    if callee.qe in keep or "(anonymous class)" in callee.qe or "(lambda" in callee.qe or callee.rec.get("lambda"):
        return None
    if len(callee.blocks) > MAX_BLOCKS or callee.rec.get("noreturn"):
        return None
    if callee.rec.get("variadic_pack") and False:
        return None
    return callee


def view(tu, fn, depth=6, keep=None):
    """-> Fn (a new object; `fn` itself when nothing was inlined)"""
    keep = keep_names() if keep is None else keep
    cache = tu.__dict__.setdefault("_inline_cache", {})
    key = (fn.id, depth)
    if key in cache:
        return cache[key]
    rec = None
    stack = {fn.id}
    changed = True
    rounds = 0
    cur = fn
    n_inl = 0
    while changed and rounds < depth * 8:
        changed = False
        rounds += 1
        for b in (rec or cur.rec)["blocks"]:
            for k, e in enumerate(b["ev"]):
                if e.get("_noinline"):
                    continue
                callee = _inlinable(tu, cur, e, stack, keep)
                if callee is None:
                    continue
                if e.get("_depth", 0) >= depth:
                    continue
                if rec is None:
                    rec = copy.deepcopy(fn.rec)
                    # restart the scan on the copy
                    changed = True
                    break
                _splice(rec, b, k, e, callee, n_inl)
                n_inl += 1
                changed = True
                break
            if changed:
                break
    if rec is None or n_inl == 0:
        cache[key] = fn
        return fn
    rec["inlined"] = n_inl
    _canon_aliases(rec)
    out = Fn(rec, tu)
    cache[key] = out
    return out


def _stable(t):
    """an argument expression that denotes the same value / object throughout the callee's activation"""
    if not isinstance(t, list) or not t:
        return True
    k = t[0]
    if k in ("int", "bool", "null", "char", "str", "enum", "zero", "var", "param", "this", "lambda", "fnref", "gvar",
             "call", "mcall", "opcall", "ctor", "initlist", "sizeof", "new"):
        return True
    if k == "cast":
        return _stable(t[2])
    if k == "u":
        # &x of a stable x, *this
        if t[1] == "&":
            return _stable(t[2]) or (isinstance(t[2], list) and t[2][:1] == ["member"] and _subobject(t[2]))
        if t[1] == "*":
            return isinstance(t[2], list) and t[2][:1] == ["this"]
        return _stable(t[2])
    if k == "b":
        return all(_stable(x) for x in t[2:4])
    if k == "member":
        return _subobject(t) and False      # the VALUE of a member may be overwritten by the helper
    return False


def _writes_param(callee, i):
    """the callee uses its parameter #i as the target of an assignment / increment / non-const operator, or takes its
    address: a by-value parameter is then a separate object and must not be replaced by the argument expression"""
    def is_p(t):
        t = lib_strip(t)
        return isinstance(t, list) and t[:2] == ["param", i]
    for cb in callee.rec.get("blocks", ()):
        for e in cb.get("ev", ()):
            k = e.get("e")
            if k == "assign" and is_p(e.get("lhs")):
                return True
            if k == "incdec" and is_p(e.get("x")):
                return True
            if k == "call" and e.get("op") in ("=", "+=", "-=", "*=", "/=", "|=", "&=", "^=", "<<=", ">>=", "++", "--") and \
                    (is_p(e.get("recv")) or (e.get("args") and is_p(e["args"][0]))):
                return True
            for key in TREE_KEYS:
                v = e.get(key)
                if v is not None and ("['u', '&', ['param', %d," % i) in str(v):
                    return True
    return False


def lib_strip(t):
    while isinstance(t, list) and t and t[0] == "cast":
        t = t[2]
    return t


def _subobject(t):
    """member path without pointer chasing from a local / parameter / *this: names one fixed sub-object"""
    while isinstance(t, list) and t[:1] == ["member"]:
        arrow = len(t) > 3 and t[3] is True
        base = t[2]
        if arrow and base != ["this"]:
            return False
        t = base
    return isinstance(t, list) and t[:1] in (["this"], ["var"], ["param"]) or (isinstance(t, list) and t[:2] == ["u", "*"])


def _is_noreturn(tu, ev):
    c = tu.fns.get(ev.get("callee"))
    return bool(c is not None and (c.rec.get("noreturn") or c.rec.get("virtual_noreturn_declared") and False))


def _strip_alias(t):
    """x, *x, &x, (T)x, elidable copy of x  ->  x"""
    while isinstance(t, list) and t:
        if t[0] == "cast":
            t = t[2]
        elif t[0] == "u" and t[1] in ("*", "&"):
            t = t[2]
        elif t[0] == "ctor" and len(t) >= 4 and len(t[3]) == 1:
            t = t[3][0]          # a copy / move of the returned local (elided or not)
        elif t[0] == "call" and len(t) >= 4 and len(t[3]) == 1 and erase(t[2]) in ("std::move", "std::forward"):
            t = t[3][0]
        else:
            break
    return t


def _pure_path(t):
    """member access path over this / a parameter / a local, possibly through smart-pointer arrows: no other calls"""
    if not isinstance(t, list) or not t:
        return False
    if t[0] == "member":
        return _pure_path(t[2])
    if t[0] in ("this", "param", "var"):
        return True
    if t[0] in ("cast",):
        return _pure_path(t[2])
    if t[0] == "u" and t[1] in ("*", "&"):
        return _pure_path(t[2])
    if t[0] == "opcall" and t[3] in ("->", "*") and len(t[4]) == 1:
        return _pure_path(t[4][0])
    return False


def _canon_aliases(rec):
    """The value a helper returned reaches the caller's code through `__ret` and, typically, a local the caller
    binds to it.  Rules identify objects by the local that holds them, so these single-definition copies are
    replaced by the local they copy (pointer / reference level is not distinguished)."""
    defs = {}
    names = {}
    for b in rec["blocks"]:
        for e in b["ev"]:
            if e["e"] == "decl":
                defs.setdefault(e["var"], []).append(e.get("init"))
                names[e["var"]] = e.get("name", "")
            elif e["e"] == "assign" and isinstance(e.get("lhs"), list) and e["lhs"][:1] == ["var"]:
                defs.setdefault(e["lhs"][1], []).append(e.get("rhs") if e.get("op") == "=" else None)
            elif e["e"] == "incdec" and isinstance(e.get("x"), list) and e["x"][:1] == ["var"]:
                defs.setdefault(e["x"][1], []).append(None)
    alias = {}
    expr = {}            # __ret / its copies -> the pure access path the helper returned (a member of something)
    rets = [v for v in defs if v % 100000 == 99999]
    for r in rets:
        if len(defs[r]) == 1:
            src = _strip_alias(defs[r][0])
            if isinstance(src, list) and src[:1] == ["var"] and src[1] != r:
                alias[r] = src[1]
            elif _pure_path(src):
                expr[r] = src
    for v, ds in defs.items():
        if v in alias or len(ds) != 1:
            continue
        src = _strip_alias(ds[0])
        if isinstance(src, list) and src[:1] == ["var"] and src[1] in rets and src[1] in alias:
            alias[v] = src[1]
    for v, ds in defs.items():
        if v in expr or v in alias or len(ds) != 1:
            continue
        src = _strip_alias(ds[0])
        if isinstance(src, list) and src[:1] == ["var"] and src[1] in expr:
            expr[v] = expr[src[1]]
    if not alias and not expr:
        return

    def root(v):
        seen = set()
        while v in alias and v not in seen:
            seen.add(v)
            v = alias[v]
        return v

    def rw(t):
        if isinstance(t, list):
            if len(t) >= 2 and t[0] == "var" and isinstance(t[1], int) and t[1] in alias:
                r = root(t[1])
                return ["var", r, names.get(r, t[2] if len(t) > 2 else "")]
            if len(t) >= 2 and t[0] == "var" and isinstance(t[1], int) and t[1] in expr:
                return copy.deepcopy(expr[t[1]])
            return [rw(x) for x in t]
        return t

    for b in rec["blocks"]:
        for e in b["ev"]:
            # the defining events themselves keep their left-hand side
            for key in TREE_KEYS:
                if key in e and e[key] is not None:
                    if key == "lhs" and e["e"] == "assign" and e["lhs"][:1] == ["var"] and \
                            (e["lhs"][1] in alias or e["lhs"][1] in expr):
                        continue
                    e[key] = rw(e[key])
        t = b.get("term")
        if t and t.get("cond") is not None:
            t["cond"] = rw(t["cond"])


def _splice(rec, b, k, e, callee, n):
    blocks = rec["blocks"]
    base = max(x["id"] for x in blocks) + 1
    off = 100000 * (n + 1)
    rvar = off + 99999
    # argument / receiver binding.  A parameter is replaced by the argument expression when that expression denotes
    # the same thing for the whole activation (constants, the caller's locals and parameters, call results,
    # sub-objects of those); an argument read through a pointer (`prev`, `p->q`) is evaluated ONCE at the call, as
    # the language does, into a fresh local that stands for the parameter - the helper may overwrite that pointer.
    args = list(e.get("args") or [])
    pmap = {}
    binds = []
    cparams = callee.rec.get("params") or []
    for i, a in enumerate(args):
        ptype = (cparams[i]["t"] if i < len(cparams) else "").rstrip()
        if _stable(a) and not (not ptype.endswith("&") and _writes_param(callee, i)):
            pmap[i] = a
        else:
            pv = off + 90000 + i
            pname = cparams[i]["n"] if i < len(cparams) else "arg%d" % i
            if ptype.endswith("&"):
                binds.append({"e": "decl", "var": pv, "name": pname, "type": ptype, "init": ["u", "&", a],
                              "loc": e.get("loc", ""), "_inl_bind": True})
                pmap[i] = ["u", "*", ["var", pv, pname]]
            else:
                binds.append({"e": "decl", "var": pv, "name": pname, "type": ptype, "init": a,
                              "loc": e.get("loc", ""), "_inl_bind": True})
                pmap[i] = ["var", pv, pname]
    this_tree = e.get("recv")
    call_tree = table.event_tree(e)
    ret_tree = ["var", rvar, "__ret"]
    depth = e.get("_depth", 0) + 1
    tries = e.get("try")
    # continuation block
    cont_id = base + len(callee.rec["blocks"])
    cont = {"id": cont_id, "ev": [], "succ": b.get("succ"), "_inl_cont": True}
    if "term" in b:
        cont["term"] = b["term"]
    for later in b["ev"][k + 1:]:
        le = dict(later)
        for key in TREE_KEYS:
            if key in le and le[key] is not None:
                le[key] = _replace(le[key], call_tree, ret_tree)
        cont["ev"].append(le)
    if cont.get("term") and cont["term"].get("cond") is not None:
        cont["term"] = dict(cont["term"])
        cont["term"]["cond"] = _replace(cont["term"]["cond"], call_tree, ret_tree)
    # the call expression may also be an operand of an expression completed in a later block (`a || f(x)`,
    # `c ? f(x) : y`): there, too, its value is what the helper returned
    for ob in blocks:
        if ob is b:
            continue
        for oe in ob["ev"]:
            for key in TREE_KEYS:
                if key in oe and oe[key] is not None and table.contains(oe[key], call_tree):
                    oe[key] = _replace(oe[key], call_tree, ret_tree)
        ot = ob.get("term")
        if ot and ot.get("cond") is not None and table.contains(ot["cond"], call_tree):
            ot["cond"] = _replace(ot["cond"], call_tree, ret_tree)
    # callee blocks
    idmap = {cb["id"]: base + i for i, cb in enumerate(callee.rec["blocks"])}
    new_blocks = []
    for cb in callee.rec["blocks"]:
        nb = {"id": idmap[cb["id"]], "ev": [], "_inl": callee.q}
        for ce in cb["ev"]:
            ne = {}
            for kk, vv in ce.items():
                if kk in TREE_KEYS and vv is not None:
                    ne[kk] = _sub(vv, pmap, this_tree, off)
                elif kk == "var" and isinstance(vv, int):
                    ne[kk] = vv + off
                elif kk == "try":
                    continue
                else:
                    ne[kk] = vv
            if tries:
                ne["try"] = tries
            ne["_depth"] = depth
            ne["_from"] = callee.q
            if ne["e"] == "return":
                if ne.get("x") is not None:
                    ne = {"e": "assign", "op": "=", "lhs": list(ret_tree), "rhs": ne["x"], "loc": ne.get("loc", ""),
                          "_inl_return": True, "_depth": depth, "_from": callee.q}
                    if tries:
                        ne["try"] = tries
                else:
                    ne = {"e": "nop", "loc": ne.get("loc", ""), "_inl_return": True, "_depth": depth}
            nb["ev"].append(ne)
        if "term" in cb:
            t = dict(cb["term"])
            if t.get("cond") is not None:
                t["cond"] = _sub(t["cond"], pmap, this_tree, off)
            nb["term"] = t
        if "catch" in cb:
            nb["catch"] = cb["catch"]
        succ = []
        for s in cb.get("succ") or []:
            succ.append(None if s is None else idmap[s])
        nb["succ"] = succ
        new_blocks.append(nb)
    # callee exit flows into the continuation; a path of the helper that ends in a throw or in a call that does
    # not return leaves the caller as well
    ex = idmap[callee.rec["exit"]]
    for nb in new_blocks:
        if nb["id"] == ex:
            nb["succ"] = [cont_id]
        elif nb["succ"] == [ex] and any(
                ev["e"] == "throw" or (ev["e"] == "call" and _is_noreturn(callee.tu, ev)) for ev in nb["ev"]):
            nb["succ"] = [rec["exit"]]
    # the call site's block keeps the events before the call and enters the callee
    marker = {"e": "inlined", "q": callee.q, "callee": callee.id, "loc": e.get("loc", ""), "args": args,
              "_depth": depth}
    if this_tree is not None:
        marker["recv"] = this_tree
    if tries:
        marker["try"] = tries
    b["ev"] = b["ev"][:k] + binds + [marker]
    b.pop("term", None)
    b["succ"] = [idmap[callee.rec["entry"]]]
    blocks.extend(new_blocks)
    blocks.append(cont)
