"""Fact extraction and loading.

A *unit* is one translation unit parsed with the tvfacts plugin at one language
standard.  Facts are cached under /verif/.cache/<key>/ where the key hashes
everything the facts depend on (all of /repo/include, the unit's source, its
flags and the plugin binary), so any edit under /repo changes the key.
"""
import fcntl
import hashlib
import json
import os
import pickle
import re
import subprocess
import sys
import time

VERIF = os.path.dirname(os.path.dirname(os.path.abspath(__file__)))
REPO = os.environ.get("VERIF_REPO", "/repo")
INCLUDE = os.path.join(REPO, "include")
PLUGIN = os.path.join(VERIF, "extractor", "tvfacts.so")
PLUGIN_SRC = os.path.join(VERIF, "extractor", "tvfacts.cc")
CACHE = os.path.join(VERIF, ".cache")


BROKEN_NOTES = []


class AnalysisBroken(Exception):
    """Raised when the analysis cannot be carried out (exit 2), never a verdict."""


# --------------------------------------------------------------------------- units
REPO_TEST_FLAGS = ["-DCATCH2_MAIN", "-DCATCH2_VERSION=2", "-UNDEBUG"]

UNITS = {
    # name: (source, std, extra flags)
    "core17": (os.path.join(VERIF, "corpus/core.cpp"), "c++17", []),
    "core14": (os.path.join(VERIF, "corpus/core.cpp"), "c++14", []),
    "core20": (os.path.join(VERIF, "corpus/core.cpp"), "c++20", []),
    "match17": (os.path.join(VERIF, "corpus/matchers.cpp"), "c++17", []),
    "match14": (os.path.join(VERIF, "corpus/matchers.cpp"), "c++14", []),
    "match20": (os.path.join(VERIF, "corpus/matchers.cpp"), "c++20", []),
    "coro20": (os.path.join(VERIF, "corpus/coro.cpp"), "c++20", []),
    "print17": (os.path.join(VERIF, "corpus/printing.cpp"), "c++17", []),
    # the C++11 macro API (cpp11_shenanigans.hpp is only active at this language level)
    "cpp11": (os.path.join(VERIF, "corpus/core11.cpp"), "c++11", []),
    "repo_ct14": (os.path.join(REPO, "test/compiling_tests_14.cpp"), "c++14", REPO_TEST_FLAGS),
    "repo_ct11": (os.path.join(REPO, "test/compiling_tests_11.cpp"), "c++14", REPO_TEST_FLAGS),
    "repo_tt": (os.path.join(REPO, "test/thread_terror.cpp"), "c++14", REPO_TEST_FLAGS),
    "repo_crm": (os.path.join(REPO, "test/custom_recursive_mutex.cpp"), "c++14", REPO_TEST_FLAGS),
    "repo_co20": (os.path.join(REPO, "test/test_co_mock.cpp"), "c++20", REPO_TEST_FLAGS),
}


def _hash_tree(h, root):
    for d, dirs, files in sorted(os.walk(root)):
        dirs.sort()
        for f in sorted(files):
            p = os.path.join(d, f)
            h.update(p.encode())
            with open(p, "rb") as fh:
                h.update(fh.read())


_include_digest = None


def include_digest():
    global _include_digest
    if _include_digest is None:
        h = hashlib.sha256()
        _hash_tree(h, INCLUDE)
        _include_digest = h.hexdigest()
    return _include_digest


_gen = [None]


def gen_dir():
    """Scratch directory for generated witness programs, private to this process (two checks running at the same
    time - on the same or on different trees - must never see each other's half-written files); removed at exit,
    leftovers of killed runs are pruned after a day."""
    if _gen[0] is None:
        import atexit
        import shutil
        import tempfile
        base = os.path.join(CACHE, "gen")
        os.makedirs(base, exist_ok=True)
        now = time.time()
        for x in os.listdir(base):
            px = os.path.join(base, x)
            try:
                if now - os.path.getmtime(px) > 86400:
                    shutil.rmtree(px, ignore_errors=True) if os.path.isdir(px) else os.remove(px)
            except OSError:
                pass
        d = tempfile.mkdtemp(prefix="p%d_" % os.getpid(), dir=base)
        atexit.register(shutil.rmtree, d, True)
        _gen[0] = d
    return _gen[0]


def ensure_plugin():
    """Build the plugin if it is missing or older than its source."""
    if os.path.exists(PLUGIN) and os.path.getmtime(PLUGIN) >= os.path.getmtime(PLUGIN_SRC):
        return
    os.makedirs(CACHE, exist_ok=True)
    with open(os.path.join(CACHE, "plugin.lock"), "w") as lk:
        fcntl.flock(lk, fcntl.LOCK_EX)
        if os.path.exists(PLUGIN) and os.path.getmtime(PLUGIN) >= os.path.getmtime(PLUGIN_SRC):
            return
        cxxflags = subprocess.check_output(["llvm-config-14", "--cxxflags"], text=True).split()
        tmp = PLUGIN + ".tmp%d" % os.getpid()
        cmd = ["clang++"] + cxxflags + ["-fPIC", "-shared", "-fno-rtti", PLUGIN_SRC, "-o", tmp]
        r = subprocess.run(cmd, capture_output=True, text=True)
        if r.returncode != 0:
            raise AnalysisBroken("cannot build extractor plugin:\n" + r.stderr[-2000:])
        os.replace(tmp, PLUGIN)


def unit_key(name):
    src, std, flags = UNITS[name]
    h = hashlib.sha256()
    h.update(include_digest().encode())
    with open(src, "rb") as fh:
        h.update(fh.read())
    # headers next to the source (test/*.hpp) matter for the repo units
    sd = os.path.dirname(src)
    for f in sorted(os.listdir(sd)):
        if f.endswith(".hpp") or f.endswith(".h"):
            with open(os.path.join(sd, f), "rb") as fh:
                h.update(fh.read())
    h.update(std.encode())
    h.update(" ".join(flags).encode())
    with open(PLUGIN_SRC, "rb") as fh:
        h.update(fh.read())
    return h.hexdigest()[:24]


def extract(name):
    """Return path of the facts file for unit `name`, extracting if necessary."""
    ensure_plugin()
    src, std, flags = UNITS[name]
    if not os.path.exists(src):
        raise AnalysisBroken("unit source missing: " + src)
    key = unit_key(name)
    d = os.path.join(CACHE, key)
    os.makedirs(d, exist_ok=True)
    try:
        os.utime(d)          # mark as in use (the pruning below spares recently used directories)
    except OSError:
        pass
    out = os.path.join(d, name + ".jsonl")
    if os.path.exists(out) or os.path.exists(out + ".pickle"):
        return out
    with open(os.path.join(d, name + ".lock"), "w") as lk:
        fcntl.flock(lk, fcntl.LOCK_EX)
        if os.path.exists(out) or os.path.exists(out + ".pickle"):
            return out
        tmp = out + ".tmp%d" % os.getpid()
        cmd = ["clang++", "-std=" + std, "-I" + INCLUDE, "-fsyntax-only", "-w"] + flags + [
            "-fplugin=" + PLUGIN, "-Xclang", "-plugin", "-Xclang", "tvfacts",
            "-Xclang", "-plugin-arg-tvfacts", "-Xclang", "out=" + tmp, src]
        r = subprocess.run(cmd, capture_output=True, text=True)
        if r.returncode != 0 or not os.path.exists(tmp):
            # show the ordinary compiler diagnostics
            r2 = subprocess.run(["clang++", "-std=" + std, "-I" + INCLUDE, "-fsyntax-only", "-w"]
                                + flags + [src], capture_output=True, text=True)
            raise AnalysisBroken("unit %s does not parse (%s):\n%s" %
                                 (name, src, (r.stderr + r2.stderr)[-3000:]))
        os.replace(tmp, out)
    _prune_cache(keep=key)
    return out


def _prune_cache(keep):
    """Keep the cache bounded: drop fact directories older than the newest 6."""
    try:
        ds = [os.path.join(CACHE, x) for x in os.listdir(CACHE)]
        ds = [x for x in ds if os.path.isdir(x) and os.path.basename(x) != "gen"]
        ds.sort(key=os.path.getmtime, reverse=True)
        import shutil
        now = time.time()
        for x in ds[10:]:
            # never remove something another check process may be using right now
            if os.path.basename(x) != keep and now - os.path.getmtime(x) > 3600:
                shutil.rmtree(x, ignore_errors=True)
    except OSError:
        pass


# --------------------------------------------------------------------------- names
_op_re = re.compile(r"operator\s*(<<=|>>=|<=>|<<|>>|<=|>=|->\*|->|<|>)")


def erase(q):
    """Strip template argument lists: a::b<int (int), c<d>>::e<f> -> a::b::e.

    Takes care of operator<, operator<< ..., and '(lambda at ...)' /
    '(anonymous class)' which contain no angle brackets of their own."""
    out = []
    i = 0
    n = len(q)
    depth = 0
    while i < n:
        if depth == 0:
            m = _op_re.match(q, i)
            if m:
                out.append(m.group(0))
                i = m.end()
                continue
        c = q[i]
        if c == "<":
            depth += 1
        elif c == ">":
            if depth > 0:
                depth -= 1
            else:
                out.append(c)
        elif depth == 0:
            out.append(c)
        elif c == "-" and i + 1 < n and q[i + 1] == ">":
            i += 1  # '->' inside template args (trailing return types)
        elif c == "(" and q.startswith("(lambda at", i):
            j = q.find(")", i)
            i = j if j >= 0 else i
        i += 1
    return "".join(out)


def short_loc(loc):
    """'/repo/include/trompeloeil/mock.hpp:3065:5' -> 'include/trompeloeil/mock.hpp:3065'"""
    if not loc:
        return ""
    parts = loc.split(":")
    f = parts[0]
    if f.startswith(REPO + "/"):
        f = f[len(REPO) + 1:]
    elif f.startswith(VERIF + "/"):
        f = "verif:" + f[len(VERIF) + 1:]
    return f + (":" + parts[1] if len(parts) > 1 else "")


# --------------------------------------------------------------------------- TU
class Fn:
    __slots__ = ("id", "q", "qe", "rec", "blocks", "entry", "exit", "stub", "tu")

    def __init__(self, rec, tu):
        self.rec = rec
        self.tu = tu
        self.id = rec["id"]
        self.q = rec["q"]
        self.qe = erase(rec["q"])
        self.stub = rec["k"] == "fnstub"
        self.blocks = {}
        if not self.stub and rec.get("blocks") is not None:
            for b in rec["blocks"]:
                self.blocks[b["id"]] = b
            self.entry = rec["entry"]
            self.exit = rec["exit"]
        else:
            self.entry = self.exit = None

    @property
    def has_body(self):
        return bool(self.blocks)

    @property
    def kind(self):
        return self.rec.get("kind")

    @property
    def is_std(self):
        return self.rec.get("std", self.q.startswith("std::") or self.q.startswith("__gnu_cxx::"))

    @property
    def is_lib(self):
        """library code: namespace trompeloeil AND written in /repo/include (user-provided customisation
        points such as create_custom_recursive_mutex or printer<T> specialisations are user code)"""
        if not self.q.startswith("trompeloeil::"):
            return False
        loc = self.rec.get("pat") or self.rec.get("loc") or ""
        return loc.startswith(INCLUDE) or not loc

    @property
    def pat(self):
        return short_loc(self.rec.get("pat") or self.rec.get("loc"))

    @property
    def loc(self):
        return short_loc(self.rec.get("loc"))

    def events(self):
        for b in self.rec.get("blocks") or ():
            for e in b["ev"]:
                yield b, e

    def flow_events(self):
        """events in an execution-compatible order (reverse post-order of the CFG from the entry)"""
        seen = set()
        post = []
        stack = [(self.entry, iter([s for s in (self.blocks[self.entry].get("succ") or ()) if s is not None]))]
        seen.add(self.entry)
        while stack:
            bid, it = stack[-1]
            nxt = None
            for s in it:
                if s not in seen:
                    nxt = s
                    break
            if nxt is None:
                post.append(bid)
                stack.pop()
            else:
                seen.add(nxt)
                stack.append((nxt, iter([s for s in (self.blocks[nxt].get("succ") or ()) if s is not None])))
        for bid in reversed(post):
            b = self.blocks[bid]
            for e in b["ev"]:
                yield b, e

    def __repr__(self):
        return "<Fn %d %s>" % (self.id, self.q)


class TU:
    def __init__(self, name, path):
        self.name = name
        self.fns = {}
        self.classes = {}
        self.by_qe = {}
        t0 = time.time()
        pk = path + ".pickle"
        recs = None
        if os.path.exists(pk) and (not os.path.exists(path) or os.path.getmtime(pk) >= os.path.getmtime(path)):
            try:
                with open(pk, "rb") as fh:
                    recs = pickle.load(fh)
            except Exception:
                recs = None
        if recs is None:
            recs = []
            try:
                with open(path) as fh:
                    for line in fh:
                        recs.append(json.loads(line))
            except FileNotFoundError:
                # another check process has just converted the facts file into its pickle
                with open(pk, "rb") as fh:
                    recs = pickle.load(fh)
            try:
                tmp = pk + ".tmp%d" % os.getpid()
                with open(tmp, "wb") as fh:
                    pickle.dump(recs, fh, protocol=pickle.HIGHEST_PROTOCOL)
                os.replace(tmp, pk)
                os.remove(path)      # the pickle is the cache; keep the disk footprint small
            except OSError:
                pass
        ended = False
        for r in recs:
            k = r["k"]
            if k in ("fn", "fnstub"):
                f = Fn(r, self)
                self.fns[f.id] = f
                self.by_qe.setdefault(f.qe, []).append(f)
            elif k == "class":
                self.classes[r["id"]] = r
            elif k == "end":
                ended = True
        if not ended:
            raise AnalysisBroken("facts file truncated: " + path)
        self.load_s = time.time() - t0
        self._overriders = None
        self._callers = None
        self.cls_by_qe = {}
        for c in self.classes.values():
            self.cls_by_qe.setdefault(erase(c["q"]), []).append(c)

    # ------------------------------------------------------------- lookup
    def find(self, qe, body=True):
        """All functions whose template-erased qualified name equals `qe`."""
        r = self.by_qe.get(qe, [])
        if body:
            r = [f for f in r if f.has_body]
        if qe.startswith("trompeloeil::"):
            # user-written specialisations of library templates (print<T>, printer<T>, reporter<T>) are user code
            r = [f for f in r if f.is_lib or not f.has_body]
        return r

    def find_re(self, pattern, body=True):
        rx = re.compile(pattern)
        out = []
        for qe, fs in self.by_qe.items():
            if rx.search(qe):
                out.extend(f for f in fs if (f.has_body or not body))
        return out

    @property
    def is_corpus(self):
        return self.name.startswith(("core", "match", "coro", "print"))

    def need(self, qe, floor=1):
        r = self.find(qe)
        if len(r) < floor and not self.name.startswith(("core", "match", "coro", "print")):
            # the repository's own units instantiate what they happen to use; the hand-confirmed floors
            # are pinned on the corpus units
            return r
        if len(r) < floor:
            # recorded, not raised: the other rules of the check still run, so that a change which both removes
            # an anchor and violates a rule is reported as the violation it is (exit 1), not only as exit 2
            msg = "anchor %s: %d instantiation(s) with a body in unit %s, need >= %d" % (qe, len(r), self.name, floor)
            if msg not in BROKEN_NOTES:
                BROKEN_NOTES.append(msg)
        return r

    # ------------------------------------------------------------- hierarchy
    def overriders(self, fid):
        """Function ids (with bodies) that may be the dynamic target of a virtual call to fid:
        fid itself and everything that transitively overrides it."""
        if self._overriders is None:
            direct = {}
            for f in self.fns.values():
                for o in f.rec.get("overrides") or ():
                    direct.setdefault(o, set()).add(f.id)
            self._overriders = {}
            self._direct_over = direct
        if fid in self._overriders:
            return self._overriders[fid]
        seen = set()
        work = [fid]
        while work:
            x = work.pop()
            if x in seen:
                continue
            seen.add(x)
            work.extend(self._direct_over.get(x, ()))
        res = [x for x in seen if x in self.fns and self.fns[x].has_body]
        self._overriders[fid] = res
        return res

    def targets(self, ev):
        """Resolved callee ids of a call/ctor/dtor/delete event (CHA for virtual ones)."""
        c = ev.get("callee", -1)
        if c is None or c < 0:
            return []
        # implicit destructor calls of automatic / temporary / member / base sub-objects are direct calls
        # of the static type's destructor; only `delete p` and virtual member calls dispatch dynamically
        if ev.get("virt") and ev["e"] != "dtor":
            t = self.overriders(c)
            return t if t else [c]
        return [c]

    def callers(self):
        """callee id -> list of (caller Fn, block, event)"""
        if self._callers is None:
            cs = {}
            for f in self.fns.values():
                for b, e in f.events():
                    if e["e"] in ("call", "ctor", "dtor", "delete"):
                        for t in self.targets(e):
                            cs.setdefault(t, []).append((f, b, e))
            self._callers = cs
        return self._callers


_tu_cache = {}


def load(name):
    if name not in _tu_cache:
        tu = TU(name, extract(name))
        normalise(tu)
        _tu_cache[name] = tu
    return _tu_cache[name]


def normalise(tu):
    """Helper-insensitive view of the unit (engine/inline.py): library functions the reference tree did not have
    are looked through at their direct call sites, and dropped from the unit when no call site is left.  On the
    reference tree there is no such function and the unit is untouched."""
    from . import inline
    known = inline.keep_names()
    new = [f for f in tu.fns.values() if f.is_lib and f.has_body and f.qe not in known and
           f.kind in ("function", "method") and "(anonymous class)" not in f.qe and "(lambda" not in f.qe and not f.rec.get("lambda")]
    tu.new_helpers = sorted(set(f.qe for f in new))
    if not new:
        return
    views = {}
    for f in list(tu.fns.values()):
        if f.has_body and f.is_lib:
            v = inline.view(tu, f)
            if v is not f:
                views[f.id] = v
    for fid, v in views.items():
        old = tu.fns[fid]
        tu.fns[fid] = v
        lst = tu.by_qe.get(old.qe, [])
        tu.by_qe[old.qe] = [v if x is old else x for x in lst]
    tu._callers = None
    tu._overriders = None
    # helpers without a remaining call site are no longer part of the program the rules look at
    cal = tu.callers()
    gone = []
    for f in new:
        cur = tu.fns.get(f.id)
        if cur is None:
            continue
        if not [c for c in cal.get(f.id, ()) if c[0].id != f.id]:
            gone.append(cur)
    for f in gone:
        del tu.fns[f.id]
        tu.by_qe[f.qe] = [x for x in tu.by_qe.get(f.qe, []) if x.id != f.id]
    tu._callers = None
    tu.looked_through = sorted(set(f.qe for f in gone))


def extract_many(names):
    """Extract several units in parallel (separate processes), then return paths."""
    ensure_plugin()
    todo = []
    for n in names:
        src, std, flags = UNITS[n]
        d = os.path.join(CACHE, unit_key(n))
        if not os.path.exists(os.path.join(d, n + ".jsonl")) and not os.path.exists(os.path.join(d, n + ".jsonl.pickle")):
            todo.append(n)
    if len(todo) > 1:
        procs = [subprocess.Popen([sys.executable, os.path.abspath(__file__), n]) for n in todo]
        for p in procs:
            p.wait()
    return [extract(n) for n in names]


if __name__ == "__main__":
    try:
        extract(sys.argv[1])
    except AnalysisBroken as e:
        sys.stderr.write(str(e) + "\n")
        sys.exit(2)
