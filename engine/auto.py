"""AUTOMATON: interprocedural typestate over CFGs.

A rule supplies
  * classify(fn, ev, env) -> None | ("sym", s) | ("term", s) | ("skip",)
      None            irrelevant event; call-like events are descended into when the callee
                      (transitively) contains relevant events
      ("sym", s)      automaton symbol s, do not descend
      ("term", s)     symbol s, and the path ends there (fatal report, abort, throw)
      ("skip",)       do not descend into this call (opaque)
  * edge(fn, cond_tree) -> name | None : a branch on `name()` / `!name()` produces the edge
      symbols ("cond", name, True/False)
  * delta(q, sym) -> q' | None (None = unchanged) ; states are hashable

explore() runs the automaton over every path of the root (all branches, loops to a fixpoint,
callees by memoised summaries, virtual calls by class-hierarchy analysis) and returns the states
reachable at normal exit {q: trace} and at terminated path ends {(q, terminating symbol): trace},
each with one witness trace.

No exception edges: an exceptional exit is a prefix of an analysed path (DESIGN section 3).
"""
from .facts import AnalysisBroken

ANY = "?"
CALLISH = ("call", "ctor", "dtor", "delete")


class Trace:
    __slots__ = ("prev", "item")

    def __init__(self, prev, item):
        self.prev = prev
        self.item = item

    def list(self, limit=40):
        out = []
        t = self
        while t is not None and len(out) < limit:
            if t.item is not None:
                out.append(t.item)
            t = t.prev
        out.reverse()
        return out


def cond_shape(tree):
    """Return (callee_tree, polarity) for conditions of the shape  f(...)  or  !f(...)
    (also var / member leaves); otherwise (tree, True)."""
    pol = True
    t = tree
    while isinstance(t, list) and t and t[0] == "u" and t[1] == "!":
        pol = not pol
        t = t[2]
    return t, pol


def call_name(tree):
    """qualified (template-carrying) name of a call-like expression tree, or None"""
    if not isinstance(tree, list) or not tree:
        return None
    k = tree[0]
    if k in ("call", "mcall", "opcall"):
        return tree[2]
    return None


def _bool_locals(L, e):
    """path-sensitive constants of boolean locals: {(var, value)} after event e"""
    k = e["e"]
    if k == "decl":
        v, rhs = e.get("var"), e.get("init")
    elif k == "assign" and isinstance(e.get("lhs"), list) and e["lhs"][:1] == ["var"]:
        v, rhs = e["lhs"][1], (e.get("rhs") if e.get("op") == "=" else None)
    elif k == "incdec" and isinstance(e.get("x"), list) and e["x"][:1] == ["var"]:
        v, rhs = e["x"][1], None
    else:
        return L
    val = None
    t, pol = cond_shape(rhs) if isinstance(rhs, list) else (None, True)
    if isinstance(t, list) and t[:1] == ["bool"]:
        val = bool(t[1]) == pol
    elif isinstance(t, list) and t[:1] == ["var"]:
        src = dict(L).get(t[1])
        if src is not None:
            val = (src == pol)
    d = dict(L)
    d.pop(v, None)
    if val is not None:
        d[v] = val
    return frozenset(d.items())


class Explorer:
    def __init__(self, tu, classify, edge=None, delta=None, descend_std=True, max_depth=40):
        self.tu = tu
        self.classify = classify
        self.edge = edge or (lambda fn, cond: None)
        self.delta = delta
        self.descend_std = descend_std
        self.max_depth = max_depth
        self._relevant = None
        self.memo = {}
        self.cuts = []
        self.inprogress = set()
        self.visited_fns = set()
        self.stats = {"summaries": 0, "block_states": 0}

    # --------------------------------------------------------------- relevance
    def relevant(self):
        """ids of functions that may (transitively) produce a symbol."""
        if self._relevant is not None:
            return self._relevant
        direct = set()
        for f in self.tu.fns.values():
            if not f.has_body:
                continue
            hit = False
            for b in f.rec["blocks"]:
                for e in b["ev"]:
                    c = self.classify(f, e, None)
                    if c is not None and c[0] in ("sym", "term"):
                        hit = True
                        break
                if hit:
                    break
                t = b.get("term")
                if t and t.get("cond") is not None:
                    ct, _ = cond_shape(t["cond"])
                    if self.edge(f, ct) is not None:
                        hit = True
                        break
            if hit:
                direct.add(f.id)
        rel = set(direct)
        callers = self.tu.callers()
        work = list(direct)
        while work:
            x = work.pop()
            for (cf, b, e) in callers.get(x, ()):
                if cf.id not in rel:
                    # an opaque call site does not propagate relevance
                    c = self.classify(cf, e, None)
                    if c is not None and c[0] in ("skip", "sym", "term"):
                        continue
                    rel.add(cf.id)
                    work.append(cf.id)
        self._relevant = rel
        return rel

    # --------------------------------------------------------------- env
    @staticmethod
    def bind(ev, env):
        new = {}
        for i, a in enumerate(ev.get("args") or ()):
            if isinstance(a, list) and a:
                if a[0] == "enum":
                    new[i] = a[1]
                elif a[0] == "bool":
                    new[i] = a[1]
                elif a[0] == "param" and env and a[1] in env:
                    new[i] = env[a[1]]
        return new

    # --------------------------------------------------------------- summaries
    def summary(self, fn, env, q, depth):
        """-> (exits: {q': trace}, terms: {q': trace}) for entering fn in state q."""
        key = (fn.id, tuple(sorted(env.items())) if env else (), q)
        if key in self.memo:
            return self.memo[key]
        if key in self.inprogress or depth > self.max_depth:
            self.cuts.append(key)
            return ({q: None}, {})  # recursion: treat as no further effect
        self.inprogress.add(key)
        self.stats["summaries"] += 1
        self.visited_fns.add(fn.id)
        mark = len(self.cuts)
        exits, terms = self._run(fn, env, q, depth)
        self.inprogress.discard(key)
        # a summary computed while a cycle through a still unfinished caller was cut is provisional:
        # it must not be reused for other contexts
        provisional = any(h in self.inprogress for h in self.cuts[mark:])
        if not provisional:
            self.memo[key] = (exits, terms)
        return exits, terms

    def _apply(self, q, sym):
        r = self.delta(q, sym)
        return q if r is None else r

    def _run(self, fn, env, q0, depth):
        rel = self.relevant()
        exits = {}
        terms = {}
        seen = {}
        work = [(fn.entry, q0, frozenset(), None)]
        blocks = fn.blocks
        while work:
            bid, q, L, tr = work.pop()
            if (bid, q, L) in seen:
                continue
            seen[(bid, q, L)] = True
            self.stats["block_states"] += 1
            b = blocks[bid]
            # states: set of (q, trace) flowing through the block's events
            cur = [(q, tr)]
            for e in b["ev"]:
                L = _bool_locals(L, e)
                c = self.classify(fn, e, env)
                if c is not None:
                    if c[0] == "sym":
                        cur = [(self._apply(qq, c[1]), Trace(t, (c[1], e.get("loc", "")))) for qq, t in cur]
                        cur = self._dedup(cur)
                        continue
                    if c[0] == "term":
                        for qq, t in cur:
                            q2 = self._apply(qq, c[1])
                            terms.setdefault((q2, c[1]), Trace(t, (c[1], e.get("loc", ""))))
                        cur = []
                        break
                    if c[0] == "skip":
                        continue
                if e["e"] in CALLISH:
                    if e.get("elidable"):
                        continue
                    tgts = [t for t in self.tu.targets(e) if t in rel]
                    if not tgts:
                        continue
                    nxt = []
                    sub_env = self.bind(e, env)
                    for qq, t in cur:
                        for tid in tgts:
                            callee = self.tu.fns[tid]
                            if not callee.has_body:
                                nxt.append((qq, t))
                                continue
                            if callee.is_std and not self.descend_std:
                                nxt.append((qq, t))
                                continue
                            ex, te = self.summary(callee, sub_env, qq, depth + 1)
                            site = ("call " + callee.qe, e.get("loc", ""))
                            for q2, t2 in ex.items():
                                nxt.append((q2, self._join(t, site, t2)))
                            for k2, t2 in te.items():
                                terms.setdefault(k2, self._join(t, site, t2))
                    cur = self._dedup(nxt)
                    if not cur:
                        break
            if not cur:
                continue
            succ = b.get("succ") or []
            if bid == fn.exit or not succ:
                for qq, t in cur:
                    exits.setdefault(qq, t)
                continue
            term = b.get("term")
            name = None
            pol = True
            only = None
            if term and term.get("cond") is not None and len(succ) == 2:
                ct, pol = cond_shape(term["cond"])
                name = self.edge(fn, ct)
                if name is None and isinstance(ct, list) and ct[:1] == ["var"]:
                    # a named local for the tested condition (`bool const alive = !died; if (alive)`): the branch is
                    # on the initialiser - but only when nothing that could change the tested state (any call) lies
                    # between the declaration and the branch, i.e. both are in this block with no call in between
                    evs = b.get("ev") or []
                    di = [i for i, e in enumerate(evs) if e["e"] == "decl" and e.get("var") == ct[1]]
                    if len(di) == 1 and not any(e["e"] in ("call", "ctor", "assign", "incdec", "new", "delete")
                                                for e in evs[di[0] + 1:]):
                        init = evs[di[0]].get("init")
                        while isinstance(init, list) and init and init[0] == "cast":
                            init = init[2]
                        if init is not None:
                            it2, ipol = cond_shape(init)
                            nm = self.edge(fn, it2)
                            if nm is not None:
                                name = nm
                                pol = (pol == ipol)
                # a branch on a local that holds a known boolean constant on this path has one feasible edge
                if isinstance(ct, list) and ct[:1] == ["var"]:
                    known = dict(L).get(ct[1])
                    if known is not None:
                        only = 0 if (known == pol) else 1
            for i, s in enumerate(succ):
                if s is None:
                    continue
                if only is not None and i != only:
                    continue
                for qq, t in cur:
                    if name is not None and len(succ) == 2:
                        val = (i == 0) == pol
                        sym = ("cond", name, val)
                        q2 = self._apply(qq, sym)
                        if q2 == "DEAD":
                            continue
                        work.append((s, q2, L, Trace(t, (sym, term.get("loc", "")))))
                    else:
                        work.append((s, qq, L, t))
        return exits, terms

    @staticmethod
    def _dedup(states):
        seen = {}
        for q, t in states:
            if q not in seen:
                seen[q] = t
        return list(seen.items())

    @staticmethod
    def _join(t, site, t2):
        # concatenate caller trace, call site marker and callee trace
        out = Trace(t, site)
        if t2 is not None:
            for item in t2.list(60):
                out = Trace(out, item)
        return out

    def explore(self, fn, q0, env=None):
        ex, te = self.summary(fn, env or {}, q0, 0)
        return ex, te


def fmt_trace(tr, limit=40):
    if tr is None:
        return []
    out = []
    for sym, loc in tr.list(limit):
        from .facts import short_loc
        out.append("%s @ %s" % (sym if isinstance(sym, str) else "/".join(str(x) for x in sym), short_loc(loc)))
    return out
