"""Anchors: how the roles used by the rules are found in the facts (by template-erased
qualified name).  A missing anchor is AnalysisBroken (exit 2), never a verdict."""
import re
from .facts import erase, AnalysisBroken

NS = "trompeloeil::"

# role -> erased qualified name
A = {
    "dispatch": NS + "mock_func",
    "find": NS + "find",
    "no_match": NS + "report_mismatch",                 # free function (4 params)
    "send_report": NS + "send_report",
    "send": NS + "reporter::send",
    "send_ok_report": NS + "send_ok_report",
    "sendOk": NS + "reporter::sendOk",
    "trace": NS + "tracer::trace",
    "get_lock": NS + "get_lock",
    "run_actions": NS + "call_matcher::run_actions",
    "run_actions_base": NS + "call_matcher_base::run_actions",
    "return_value": NS + "call_matcher::return_value",
    "matches": NS + "call_matcher::matches",
    "match_conditions": NS + "call_matcher::match_conditions",
    "dtor_call_matcher": NS + "call_matcher::~call_matcher",
    "mock_destroyed": NS + "call_matcher::mock_destroyed",
    "is_unfulfilled": NS + "call_matcher::is_unfulfilled",
    "report_missed": NS + "call_matcher::report_missed",
    "report_unfulfilled": NS + "report_unfulfilled",
    "report_forbidden_call": NS + "report_forbidden_call",
    "hook_last": NS + "call_matcher::hook_last",
    "decommission": NS + "call_matcher_list::decommission",
    "increment_call": NS + "sequence_handler_base::increment_call",
    "is_satisfied": NS + "sequence_handler_base::is_satisfied",
    "is_saturated": NS + "sequence_handler_base::is_saturated",
    "is_forbidden": NS + "sequence_handler_base::is_forbidden",
    "set_limits": NS + "sequence_handler_base::set_limits",
    "can_be_called": NS + "sequence_handler_base::can_be_called",
    "validate": NS + "sequence_handler_base::validate",
    "retire": NS + "sequence_handler_base::retire",
    "retire_predecessors": NS + "sequence_handler_base::retire_predecessors",
    "order": NS + "sequence_handler_base::order",
    "side_effect_action": NS + "side_effect_base::action",
    "return_handler_call": NS + "return_handler::call",
    "condition_check": NS + "condition_base::check",
    "unlink": NS + "list_elem::unlink",
    "push_back": NS + "list::push_back",
    "push_front": NS + "list::push_front",
    "notify": NS + "lifetime_monitor::notify",
    "dtor_deathwatched": NS + "deathwatched::~deathwatched",
    "dtor_lifetime_monitor": NS + "lifetime_monitor::~lifetime_monitor",
    "dtor_sequence_type": NS + "sequence_type::~sequence_type",
    "validate_match": NS + "sequence_type::validate_match",
    "seq_cost": NS + "sequence_type::cost",
    "seq_is_completed": NS + "sequence_type::is_completed",
    "seq_retire_until": NS + "sequence_type::retire_until",
    "seq_is_first": NS + "sequence_type::is_first",
    "seq_add_last": NS + "sequence_type::add_last",
    "reporter_obj": NS + "reporter_obj",
    "ok_reporter_obj": NS + "ok_reporter_obj",
    "set_reporter": NS + "set_reporter",
    "tracer_obj": NS + "tracer_obj",
    "set_tracer": NS + "set_tracer",
}

SEV_FATAL = "trompeloeil::severity::fatal"
SEV_NONFATAL = "trompeloeil::severity::nonfatal"


def qe(ev):
    """template-erased callee name of a call-like event ('' if unresolved)"""
    q = ev.get("q")
    if q is None:
        return ""
    c = ev.get("_qe")
    if c is None:
        c = erase(q)
        ev["_qe"] = c
    return c


def is_call_to(ev, role):
    return ev["e"] == "call" and qe(ev) == A[role]


def callee_ctx(tu, ev):
    """'lib' | 'std' | 'user' | 'none' for the (static) callee of a call-like event"""
    c = ev.get("callee", -1)
    if c is None or c < 0 or c not in tu.fns:
        return "none"
    f = tu.fns[c]
    if f.is_lib:
        return "lib"
    if f.is_std:
        return "std"
    return "user"   # includes customisation points the user defines inside namespace trompeloeil


def severity_of(tree, env):
    """Resolve a severity argument: 'fatal' | 'nonfatal' | '?'"""
    if isinstance(tree, list) and tree:
        if tree[0] == "enum":
            if tree[1] == SEV_FATAL:
                return "fatal"
            if tree[1] == SEV_NONFATAL:
                return "nonfatal"
        if tree[0] == "param" and env is not None and tree[1] in env:
            v = env[tree[1]]
            if v == SEV_FATAL:
                return "fatal"
            if v == SEV_NONFATAL:
                return "nonfatal"
    return "?"


def tree_calls(tree, out=None):
    """all call-like subtrees of an expression tree"""
    if out is None:
        out = []
    if isinstance(tree, list):
        if tree and tree[0] in ("call", "mcall", "opcall", "ctor"):
            out.append(tree)
        for x in tree:
            tree_calls(x, out)
    return out


def subtrees(tree, out=None):
    """every list-shaped subtree whose head is a string tag (the tree itself included)"""
    if out is None:
        out = []
    if isinstance(tree, list):
        if tree and isinstance(tree[0], str):
            out.append(tree)
        for x in tree:
            subtrees(x, out)
    return out


def tree_name(tree):
    """erased name of a call-like tree"""
    if isinstance(tree, list) and tree and tree[0] in ("call", "mcall", "opcall"):
        return erase(tree[2])
    return None


def holder_classes(tu):
    """template-erased names of the per-function expectation holder (`expectations`) and of its base classes"""
    r = tu.__dict__.get("_holder_classes")
    if r is not None:
        return r
    out = {NS + "expectations"}
    work = [NS + "expectations"]
    while work:
        q = work.pop()
        for c in tu.cls_by_qe.get(q, []):
            for b in c.get("bases", ()):
                bq = erase(b.get("t", "").replace("struct ", "").replace("class ", "").strip())
                if bq.startswith(NS) and bq not in out:
                    out.add(bq)
                    work.append(bq)
    tu.__dict__["_holder_classes"] = out
    return out


def holder_field(tu, field):
    """'active' / 'saturated' when `field` (erased or not) is that list of the expectation holder - declared in
    `expectations` itself or in one of its bases - else None"""
    fe = erase(field)
    cls, _, leaf = fe.rpartition("::")
    if leaf in ("active", "saturated") and cls in holder_classes(tu):
        return leaf
    return None


def peer_roles(tu):
    """Borrowing members found by role (type), so that a renamed member or a reference turned into a pointer keeps its
    rules.  -> dict role -> erased field name (absent when not identifiable):
      slot        the one pointer member of null_on_move (monitor slot inside a watched object)
      back        lifetime_monitor's reference / pointer to that slot
      prev_tracer tracer's pointer to the previously active tracer
      seq_ref     sequence_matcher's reference to its sequence_type
      handler_ref sequence_matcher's reference to the handler (counters) of its own expectation"""
    import re as _re
    r = tu.__dict__.get("_peer_roles")
    if r is not None:
        return r

    def fields(cq, pred):
        for c in tu.cls_by_qe.get(cq, []):
            if c.get("incomplete"):
                continue
            hit = [erase(f["q"]) for f in c.get("fields", ()) if pred(f["t"].strip())]
            if hit:
                return hit
        return []
    out = {}
    for role, cq, pred in (
            ("slot", NS + "null_on_move", lambda t: t.endswith("*")),
            ("back", NS + "lifetime_monitor",
             lambda t: _re.match(r"(trompeloeil::)?lifetime_monitor \*\s*(&|\*)\s*(const)?$", t) is not None),
            ("prev_tracer", NS + "tracer", lambda t: _re.match(r"(trompeloeil::)?tracer \*(\s*const)?$", t) is not None),
            ("seq_ref", NS + "sequence_matcher", lambda t: _re.match(r"(trompeloeil::)?sequence_type\s*(&|\*)", t) is not None),
            ("handler_ref", NS + "sequence_matcher",
             lambda t: _re.match(r"(const )?(trompeloeil::)?sequence_handler_base\s*(const\s*)?(&|\*)", t) is not None)):
        h = fields(cq, pred)
        if len(h) == 1:
            out[role] = h[0]
    tu.__dict__["_peer_roles"] = out
    return out


def strip_deref(t):
    """(*x), (T)x -> x"""
    while isinstance(t, list) and t and ((t[0] == "u" and t[1] == "*") or t[0] == "cast"):
        t = t[2]
    return t


def reported_role(tu):
    """The expectation's 'already reported' flag, by role rather than by name: the only boolean member of
    call_matcher.  -> (erased field name, value that means 'reported'); the value is the negation of the member's
    initial value (an expectation starts out as not yet reported).  AnalysisBroken when not identifiable."""
    r = tu.__dict__.get("_reported_role")
    if r is not None:
        return r
    cand = []
    for c in tu.cls_by_qe.get(NS + "call_matcher", []):
        bs = [erase(f["q"]) for f in c.get("fields", ()) if f["t"] in ("bool", "_Bool")]
        if bs:
            cand = bs
            break
    if len(cand) != 1:
        raise AnalysisBroken("the expectation's reported flag is not identified (boolean members of call_matcher: %s)" % cand)
    field = cand[0]
    init = None
    for f in tu.find(NS + "call_matcher::call_matcher"):
        for b, e in f.events():
            if e["e"] == "init" and erase(e.get("field", "")) == field and isinstance(e.get("x"), list) and \
                    e["x"][:1] == ["bool"]:
                init = bool(e["x"][1])
    if init is None:
        raise AnalysisBroken("initial value of %s not found" % field)
    r = (field, not init)
    tu.__dict__["_reported_role"] = r
    return r


def is_set_reported(tu, ev):
    """event = assignment of the 'reported' value to the reported flag -> True; of the other value -> False; else None"""
    if ev["e"] != "assign" or ev.get("op") != "=":
        return None
    lhs = strip_casts(ev.get("lhs"))
    if not (isinstance(lhs, list) and lhs[:1] == ["member"]):
        return None
    try:
        field, val = reported_role(tu)
    except AnalysisBroken:
        if tu.is_corpus:
            raise
        return None      # a repository unit that never instantiates an expectation has no such member
    if erase(lhs[1]) != field:
        return None
    rhs = strip_casts(ev.get("rhs"))
    if isinstance(rhs, list) and rhs[:1] == ["bool"]:
        return bool(rhs[1]) == val
    return None


def resolve(fn, t, depth=0):
    """follow single-definition local aliases: (T)x, *&x, a local whose only definition is an initialisation -> what
    it was initialised from (used to compare a receiver / argument with a member whatever local names it was given)"""
    t = strip_casts(t)
    while isinstance(t, list) and t[:2] == ["u", "*"] and isinstance(t[2], list) and t[2][:2] == ["u", "&"]:
        t = strip_casts(t[2][2])
    if depth < 5 and isinstance(t, list):
        if t[:1] == ["var"]:
            defs = [e for b, e in fn.events() if (e["e"] == "decl" and e.get("var") == t[1]) or
                    (e["e"] == "assign" and isinstance(e.get("lhs"), list) and e["lhs"][:2] == ["var", t[1]])]
            if len(defs) == 1 and defs[0]["e"] == "decl" and defs[0].get("init") is not None:
                return resolve(fn, defs[0]["init"], depth + 1)
            decl = [d for d in defs if d["e"] == "decl"]
            if len(decl) == 1 and (decl[0].get("type") or "").rstrip().endswith("&") and decl[0].get("init") is not None:
                # a reference never rebinds: assignments through it do not change what it names
                return resolve(fn, decl[0]["init"], depth + 1)
        if t[:2] == ["u", "*"] or t[:2] == ["u", "&"]:
            inner = resolve(fn, t[2], depth + 1)
            if isinstance(inner, list) and ((t[1] == "*" and inner[:2] == ["u", "&"]) or (t[1] == "&" and inner[:2] == ["u", "*"])):
                return resolve(fn, inner[2], depth + 1)
            return ["u", t[1], inner]
    return t


def strip_elidable(t):
    """C++14 spells a by-value argument / result as an elidable copy construction of the operand"""
    while isinstance(t, list) and len(t) >= 5 and t[0] == "ctor" and t[4] is True and len(t[3]) == 1:
        t = t[3][0]
    return t


def strip_casts(t):
    while isinstance(t, list) and t and t[0] == "cast":
        t = t[2]
    return t


def is_std_function_call(ev):
    return ev["e"] == "call" and qe(ev) == "std::function::operator()"


def user_callback(tu, ev):
    """calls that leave the library: stored user callables and std::function invocations"""
    if ev["e"] != "call":
        return False
    if is_std_function_call(ev):
        return True
    return callee_ctx(tu, ev) == "user"


def noreturn_call(tu, ev):
    """calls of library functions declared [[noreturn]], and abort/terminate.  (The throw helpers
    inside libstdc++ are exception paths, i.e. prefixes of analysed paths, and are not events.)"""
    c = ev.get("callee", -1)
    if ev["e"] == "call" and c is not None and c >= 0 and c in tu.fns:
        f = tu.fns[c]
        if not f.rec.get("noreturn"):
            return False
        return f.q.startswith(NS) or f.q in ("abort", "std::abort", "std::terminate", "exit", "std::exit")
    return False


def process_wide_state(ctx, tu, rule, roles):
    """The library's registries (current reporter, OK reporter, current tracer, the global lock) are static objects
    handed out by an accessor: `static T obj; return obj;`.  The properties that speak about 'the installed'
    reporter / 'the' tracer / 'the' lock need ONE object per process: a thread_local object gives every thread its own
    and silently splits the registry.  `roles` are the accessors' names; what they return must be (or refer to) a
    variable with static storage duration that is not thread_local.  An accessor that hands out nothing with static
    storage is an unrecognised idiom (analysis broken)."""
    n = 0
    for role in roles:
        for fn in tu.find(role):
            if not fn.has_body:
                continue
            gv = []
            for _, e in fn.events():
                if e["e"] == "return":
                    gv += [t for t in subtrees(e.get("x")) if isinstance(t, list) and t[:1] == ["gvar"]]
            n += 1
            if not gv:
                ctx.ob(rule, "%s (process-wide registry)" % fn.qe, None, pattern=fn.pat, unit=tu.name, inst=fn.q,
                       detail="%s does not return an object with static storage duration" % fn.qe)
                continue
            tls = [t for t in gv if "tls" in t[3:]]
            ctx.ob(rule, "%s (process-wide registry)" % fn.qe, not tls, pattern=fn.pat, unit=tu.name,
                   inst=fn.q, detail="" if not tls else "the registry object `%s` handed out by %s is thread_local: every "
                   "thread gets its own copy, so what one thread installs is not what another thread's calls use"
                   % (tls[0][1], fn.qe))
    return n


def died_field(tu):
    """the monitor's 'the object has died' flag, by role: the only boolean (plain or atomic) member of the lifetime
    monitor.  Falls back to the reference name."""
    r = getattr(tu, "_died_field", None)
    if r is not None:
        return r
    r = NS + "lifetime_monitor::died"
    for c in tu.cls_by_qe.get(NS + "lifetime_monitor", [])[:1]:
        hit = [f for f in c.get("fields", ()) if re.match(r"^(bool|_Bool|(std::|trompeloeil::)?atomic<bool>)$", f.get("t", "").strip())]
        if len(hit) == 1:
            r = erase(hit[0]["q"])
    try:
        tu._died_field = r
    except Exception:
        pass
    return r


def cond_atom(fn, bid):
    """(atom tree, polarity) of the branch condition of block `bid`.  A named local for the tested condition
    (`bool const alive = !died; if (alive)`) is looked through only when its declaration is in the same block with no
    call between it and the branch (nothing could have changed the tested state in between)."""
    b = fn.blocks[bid]
    cond = (b.get("term") or {}).get("cond")
    if cond is None:
        return None, True
    t, pol = cond, True
    while isinstance(t, list) and t and t[0] == "u" and t[1] == "!":
        pol = not pol
        t = t[2]
    if isinstance(t, list) and t[:1] == ["var"]:
        evs = b.get("ev") or []
        di = [i for i, e in enumerate(evs) if e["e"] == "decl" and e.get("var") == t[1]]
        if len(di) == 1 and not any(e["e"] in ("call", "ctor", "assign", "incdec", "new", "delete") for e in evs[di[0] + 1:]):
            init = strip_casts(evs[di[0]].get("init"))
            while isinstance(init, list) and init and init[0] == "u" and init[1] == "!":
                pol = not pol
                init = init[2]
            if init is not None:
                t = init
    return t, pol


def side_effect_action(tu):
    """the virtual that runs one SIDE_EFFECT, by role: the only virtual method (besides the destructor) of
    side_effect_base.  Falls back to the reference name."""
    r = getattr(tu, "_se_action", None)
    if r is not None:
        return r
    r = A["side_effect_action"]
    vm = set(f.qe for f in tu.fns.values() if erase(f.rec.get("clsq", "")) == NS + "side_effect_base"
             and f.rec.get("kind") == "method" and f.rec.get("virtual"))
    if len(vm) == 1:
        r = vm.pop()
    try:
        tu._se_action = r
    except Exception:
        pass
    return r
