"""Positive controls executed at the start of every check run (a few milliseconds).

Rules whose expected number of reports on a healthy tree is zero pass vacuously if the engine is
blind.  These controls feed each engine primitive a tiny synthetic fact base that DOES contain the
construct it looks for and require it to be found; a blind primitive makes the run 'analysis
broken' (exit 2) instead of a silent pass."""
from . import cfg as cfgmod
from .auto import Explorer
from .facts import Fn, AnalysisBroken
from .table import Interp


class _TU:
    def __init__(self, recs):
        self.name = "control"
        self.fns = {}
        for r in recs:
            f = Fn(r, self)
            self.fns[f.id] = f
        self._cal = None

    def targets(self, ev):
        c = ev.get("callee", -1)
        return [c] if c is not None and c >= 0 else []

    def callers(self):
        if self._cal is None:
            cs = {}
            for f in self.fns.values():
                for b, e in f.events():
                    if e["e"] == "call":
                        for t in self.targets(e):
                            cs.setdefault(t, []).append((f, b, e))
            self._cal = cs
        return self._cal


def _fn(fid, q, blocks, entry, exit_):
    return {"k": "fn", "id": fid, "q": q, "loc": "control:1:1", "pat": "control:1:1", "std": False,
            "kind": "function", "params": [], "blocks": blocks, "entry": entry, "exit": exit_}


def run():
    # f: B3(entry) -> B2: if (guard()) -> B1: bad() ; -> B0(exit).  g calls f.
    f = _fn(0, "ctl::f", [
        {"id": 3, "ev": [], "succ": [2]},
        {"id": 2, "ev": [{"e": "call", "callee": 2, "q": "ctl::guard", "args": [], "loc": "control:2:1"}],
         "term": {"kind": "if", "cond": ["call", 2, "ctl::guard", []]}, "succ": [1, 0]},
        {"id": 1, "ev": [{"e": "call", "callee": 3, "q": "ctl::bad", "args": [], "loc": "control:3:1"}], "succ": [0]},
        {"id": 0, "ev": [], "succ": []}], 3, 0)
    g = _fn(1, "ctl::g", [
        {"id": 2, "ev": [], "succ": [1]},
        {"id": 1, "ev": [{"e": "call", "callee": 0, "q": "ctl::f", "args": [], "loc": "control:9:1"}], "succ": [0]},
        {"id": 0, "ev": [], "succ": []}], 2, 0)
    stub = lambda i, q: {"k": "fnstub", "id": i, "q": q, "loc": "control:1:1"}
    tu = _TU([f, g, stub(2, "ctl::guard"), stub(3, "ctl::bad")])

    # AUTOMATON: the 'bad' event must be found, through the call from g, only on the guard's true edge
    def classify(fn, ev, env):
        if ev["e"] == "call" and ev.get("q") == "ctl::bad":
            return ("sym", "bad")
        if ev["e"] == "call" and ev.get("q") == "ctl::guard":
            return ("skip",)
        return None

    def edge(fn, cond):
        return "guard" if isinstance(cond, list) and cond[:1] == ["call"] and cond[2] == "ctl::guard" else None

    def delta(q, sym):
        if isinstance(sym, tuple) and sym[0] == "cond":
            return (sym[2], q[1])
        if sym == "bad":
            return (q[0], True)
        return None

    ex = Explorer(tu, classify, edge=edge, delta=delta)
    exits, terms = ex.explore(tu.fns[1], (None, False))
    if (True, True) not in exits or (False, False) not in exits or (False, True) in exits:
        raise AnalysisBroken("positive control failed: AUTOMATON does not see an event behind a branch and a call (%s)"
                             % sorted(exits))
    # DOM
    fobj = tu.fns[0]
    if not cfgmod.edge_dominates(fobj, (2, 0), 1) or cfgmod.edge_dominates(fobj, (2, 0), 0):
        raise AnalysisBroken("positive control failed: DOM")
    # TABLE
    h = _fn(4, "ctl::h", [
        {"id": 2, "ev": [], "succ": [1]},
        {"id": 1, "ev": [{"e": "return", "x": ["b", ">=", ["member", "ctl::S::a", ["this"], True],
                                               ["member", "ctl::S::b", ["this"], True]]}], "succ": [0]},
        {"id": 0, "ev": [], "succ": []}], 2, 0)
    hf = Fn(h, tu)
    for a in (0, 1, 2):
        for b in (0, 1, 2):
            def oracle(kind, t, it, a=a, b=b):
                return a if t[1].endswith("::a") else b
            r = Interp(hf, oracle).run()
            if r != ("return", a >= b):
                raise AnalysisBroken("positive control failed: TABLE")
    return 3
