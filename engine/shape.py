"""SHAPE: abstract interpretation of the intrusive-list primitives over canonical ring shapes.

The four primitives (unlink, push_front, push_back, move-assignment of a node) are straight-line
pointer code that touches only the node(s) they are given and their immediate neighbours.  A ring is
therefore abstracted canonically as  head, first..last neighbours, and up to one further element
standing for the untouched middle; the extracted CFG of the primitive is interpreted over every such
shape (0..3 elements, every position of the operand) with a symbolic heap  cell -> {next, prev},
and the resulting heap is compared with the specified ring.  No trompeloeil code is executed; the
interpreter is the one of engine/table.py extended with a heap."""
from .facts import erase
from .table import Interp, Unknown, event_tree


class Heap:
    def __init__(self):
        self.cells = {}

    def add(self, name):
        self.cells[name] = {"next": name, "prev": name}

    def ring(self, names):
        for n in names:
            self.cells.setdefault(n, {"next": n, "prev": n})
        k = len(names)
        for i, n in enumerate(names):
            self.cells[n]["next"] = names[(i + 1) % k]
            self.cells[n]["prev"] = names[(i - 1) % k]

    def ring_from(self, start):
        out = [start]
        cur = self.cells[start]["next"]
        guard = 0
        while cur != start:
            out.append(cur)
            cur = self.cells[cur]["next"]
            guard += 1
            if guard > 20 or cur not in self.cells:
                return None
        return out

    def well_formed(self):
        for n, c in self.cells.items():
            if c["next"] not in self.cells or c["prev"] not in self.cells:
                return "cell %s points outside the heap" % n
            if self.cells[c["next"]]["prev"] != n:
                return "%s.next.prev != %s" % (n, n)
            if self.cells[c["prev"]]["next"] != n:
                return "%s.prev.next != %s" % (n, n)
        return None


FIELD = {"next": "next", "prev": "prev"}


class HeapInterp(Interp):
    def __init__(self, tu, fn, heap, this, params, depth=0):
        super().__init__(fn, self._oracle)
        self.tu = tu
        self.heap = heap
        self.this = this
        self.params = params      # index -> ("ref", cell) | ("ptr", cell)
        self.depth = depth

    # a value denoting a cell: ("ptr", name)
    def cell_of(self, t):
        v = self.ev(t)
        if isinstance(v, tuple) and v and v[0] in ("ptr", "ref"):
            return v[1]
        raise Unknown("not a node: %r" % (v,))

    def ev(self, t):
        if isinstance(t, list) and t:
            k = t[0]
            if k == "this":
                return ("ptr", self.this)
            if k == "param":
                if t[1] in self.params:
                    return ("ptr", self.params[t[1]][1])
                raise Unknown("param")
            if k == "member":
                f = erase(t[1]).rsplit("::", 1)[-1]
                if f in FIELD:
                    c = self.cell_of(t[2])
                    return ("ptr", self.heap.cells[c][f])
                raise Unknown("member " + t[1])
            if k == "u" and t[1] == "&":
                return ("ptr", self.cell_of(t[2]))
            if k == "u" and t[1] == "*":
                return ("ptr", self.cell_of(t[2]))
            if k == "cast":
                return self.ev(t[2])
        return super().ev(t)

    def lval(self, t):
        if t[0] == "member":
            f = erase(t[1]).rsplit("::", 1)[-1]
            if f in FIELD:
                return ("heap", self.cell_of(t[2]), f)
        return super().lval(t)

    def load(self, lv):
        if lv[0] == "heap":
            return ("ptr", self.heap.cells[lv[1]][lv[2]])
        return super().load(lv)

    def store(self, lv, v):
        if lv[0] == "heap":
            if not (isinstance(v, tuple) and v[0] == "ptr"):
                raise Unknown("storing a non-node into a link")
            self.heap.cells[lv[1]][lv[2]] = v[1]
            return
        super().store(lv, v)

    def run(self, start=None, stop_blocks=(), max_steps=400, event_hook=None):
        return super().run(start=start, stop_blocks=stop_blocks, max_steps=max_steps, event_hook=self._hook)

    def _hook(self, e, it):
        """constructor initialisers: link fields of `this` are stores into the heap; a base-class node constructor is
        interpreted on the same cell"""
        if e["e"] != "init":
            return None
        if "field" in e:
            f = erase(e["field"]).rsplit("::", 1)[-1]
            if f in FIELD:
                self.heap.cells[self.this][f] = self.cell_of(e["x"])
            return "skip"
        x = e.get("x")
        if "base" in e and isinstance(x, list) and x[:1] == ["ctor"] and "list_elem" in erase(e["base"]):
            callee = self.tu.fns.get(x[1])
            if callee is None or not callee.has_body:
                raise Unknown("body of the node constructor")
            if self.depth >= 4:
                raise Unknown("constructor nesting")
            ps = {i: ("ref", self.cell_of(a)) for i, a in enumerate(x[3])}
            HeapInterp(self.tu, callee, self.heap, self.this, ps, self.depth + 1).run()
        return "skip"

    def _oracle(self, kind, t, it):
        if kind == "call":
            name = erase(t[2]) if t[0] in ("call", "mcall", "opcall") else ""
            short = name.rsplit("::", 1)[-1]
            if short in ("invariant_check", "ignore"):
                return None
            if t[0] == "ctor":
                # iterator{node} / an elidable copy of an iterator keeps denoting the node
                if len(t) > 3 and len(t[3]) == 1:
                    try:
                        v = self.ev(t[3][0])
                        if isinstance(v, tuple) and v and v[0] in ("ptr", "ref"):
                            return ("ptr", v[1])
                    except Unknown:
                        pass
                return ("obj", "tmp")
            # the list's own queries and its iterator, in terms of the heap
            if name == "trompeloeil::list::begin":
                return ("ptr", self.heap.cells[self.cell_of(t[3])]["next"])
            if name == "trompeloeil::list::end":
                return ("ptr", self.cell_of(t[3]))
            if name == "trompeloeil::list::empty":
                c = self.cell_of(t[3])
                return self.heap.cells[c]["next"] == c
            if name in ("trompeloeil::list::iterator::operator*", "trompeloeil::list::iterator::operator->"):
                return ("ptr", self.cell_of(t[4][0]))
            if name == "trompeloeil::list::iterator::operator++":
                lv = self.lval(t[4][0])
                cur = self.cell_of(t[4][0])
                nv = ("ptr", self.heap.cells[cur]["next"])
                self.store(lv, nv)
                return nv if len(t[4]) == 1 else ("ptr", cur)
            if name in ("trompeloeil::operator!=", "trompeloeil::operator=="):
                a, b = self.cell_of(t[4][0]), self.cell_of(t[4][1])
                return (a != b) if name.endswith("!=") else (a == b)
            if short in ("push_front", "push_back") and t[0] == "mcall" and self.depth < 3:
                callee = self.tu.fns.get(t[1])
                if callee is None or not callee.has_body:
                    raise Unknown("callee body of " + name)
                ps = {i: ("ref", self.cell_of(a)) for i, a in enumerate(t[4])}
                sub = HeapInterp(self.tu, callee, self.heap, self.cell_of(t[3]), ps, self.depth + 1)
                r = sub.run()
                return r[1] if r[0] == "return" else None
            if short in ("unlink", "is_linked", "operator=") and t[0] in ("mcall", "opcall") and self.depth < 3:
                recv = t[3] if t[0] == "mcall" else t[4][0]
                cell = self.cell_of(recv)
                callee = self.tu.fns.get(t[1])
                if callee is None or not callee.has_body:
                    raise Unknown("callee body of " + name)
                args = t[4] if t[0] == "mcall" else t[4][1:]
                ps = {}
                for i, a in enumerate(args):
                    ps[i] = ("ref", self.cell_of(a))
                sub = HeapInterp(self.tu, callee, self.heap, cell, ps, self.depth + 1)
                r = sub.run()
                return r[1] if r[0] == "return" else None
            if name.startswith("std::move") or name.startswith("std::forward"):
                return self.ev(t[3][0])
            raise Unknown("call " + name)
        raise Unknown(kind + " " + str(t)[:60])
