"""CFG utilities over the extracted block graphs: reachability with deleted edges (DOM),
natural loops, early exits, event lookup."""


def succs(fn, bid):
    return [s for s in (fn.blocks[bid].get("succ") or ()) if s is not None]


def edges(fn):
    for bid, b in fn.blocks.items():
        for i, s in enumerate(b.get("succ") or ()):
            if s is not None:
                yield bid, i, s


def reach(fn, start, avoid_edges=(), avoid_blocks=()):
    """blocks reachable from `start` (inclusive) without taking avoid_edges {(bid, succ index)} or
    entering avoid_blocks"""
    avoid_edges = set(avoid_edges)
    avoid_blocks = set(avoid_blocks)
    seen = set()
    work = [start]
    while work:
        b = work.pop()
        if b in seen or b in avoid_blocks:
            continue
        seen.add(b)
        for i, s in enumerate(fn.blocks[b].get("succ") or ()):
            if s is None or (b, i) in avoid_edges:
                continue
            work.append(s)
    return seen


def edge_dominates(fn, edge, target):
    """every path entry -> target takes `edge` = (bid, succ index)"""
    return target not in reach(fn, fn.entry, avoid_edges=[edge])


def block_dominates(fn, a, target):
    if a == target:
        return True
    return target not in reach(fn, fn.entry, avoid_blocks=[a])


def find_events(fn, pred):
    out = []
    for bid, b in fn.blocks.items():
        for i, e in enumerate(b["ev"]):
            if pred(e):
                out.append((bid, i, e))
    return out


def cond_of(fn, bid):
    t = fn.blocks[bid].get("term")
    return t.get("cond") if t else None


def term_kind(fn, bid):
    t = fn.blocks[bid].get("term")
    return t.get("kind") if t else None


LOOP_KINDS = ("rangefor", "for", "while", "do")


def loops(fn):
    """-> list of dict(head, kind, body(set), exit_edges[(bid, idx, target)], normal_exit)
    head: the block whose terminator is the loop statement's condition."""
    out = []
    for bid, b in fn.blocks.items():
        t = b.get("term")
        if not t or t.get("kind") not in LOOP_KINDS:
            continue
        sc = b.get("succ") or []
        if len(sc) != 2:
            continue
        body_entry, after = sc[0], sc[1]
        if body_entry is None:
            continue
        body = reach(fn, body_entry, avoid_blocks=[bid])
        # body = blocks from which the head is reachable again (natural loop), within `body`
        natural = set()
        for x in body:
            if bid in reach(fn, x, avoid_blocks=[]) and x != bid:
                # x can reach the head; but exclude blocks only reachable after leaving the loop
                natural.add(x)
        # blocks of `body` that can come back to the head without passing `after`... keep simple:
        natural = set(x for x in body if bid in reach(fn, x, avoid_blocks=([after] if after is not None else [])))
        exits = []
        for x in natural:
            for i, s in enumerate(fn.blocks[x].get("succ") or ()):
                if s is not None and s not in natural and s != bid:
                    exits.append((x, i, s))
        # the loop's entry: where control (re-)enters the condition.  For `while (a && b)` the condition spans
        # several blocks and the one carrying the loop terminator (`head`) is the last of them.
        members = natural | {bid}
        preds = {}
        for x, i, s2 in edges(fn):
            preds.setdefault(s2, set()).add(x)
        ent = [x for x in members if any(p not in members for p in preds.get(x, ()))]
        entry = ent[0] if len(ent) == 1 else bid
        if t["kind"] == "do":
            entry = body_entry if body_entry in members else entry
        out.append({"head": bid, "kind": t["kind"], "body": natural, "exit_edges": exits, "after": after,
                    "loc": t.get("loc", ""), "entry": entry})
    return out


def loop_containing(fn, bid):
    best = None
    for l in loops(fn):
        if bid in l["body"] or bid == l["head"]:
            if best is None or len(l["body"]) < len(best["body"]):
                best = l
    return best


def events_in_blocks(fn, blocks, pred):
    out = []
    for bid in blocks:
        for i, e in enumerate(fn.blocks[bid]["ev"]):
            if pred(e):
                out.append((bid, i, e))
    return out


def has_early_exit(fn, loop, ignore_noreturn=True):
    """a return / break / other edge leaving the loop body other than through the loop condition"""
    for (x, i, s) in loop["exit_edges"]:
        return True
    # returns inside the body: body blocks whose successor is the function exit are exit edges above
    return False
