"""Check context: obligations, findings, known findings, evidence, exit codes."""
import json
import os
import sys
import time

from . import facts
from .facts import AnalysisBroken, VERIF

EVIDENCE = os.environ.get("VERIF_EVIDENCE_DIR") or os.path.join(VERIF, "evidence")
REPLAYS = os.path.join(EVIDENCE, "replays")
KNOWN = os.path.join(VERIF, "known_findings.json")

QUICK_UNITS = ["core17", "match17", "coro20", "print17", "cpp11"]
THOROUGH_UNITS = ["core14", "core17", "core20", "match14", "match17", "match20", "coro20",
                  "print17", "cpp11", "repo_ct14", "repo_ct11", "repo_tt", "repo_crm", "repo_co20"]


class Ob:
    __slots__ = ("rule", "construct", "pattern", "unit", "status", "detail", "witness", "inst")

    def __init__(self, rule, construct, pattern, unit, status, detail, witness, inst):
        self.rule = rule
        self.construct = construct
        self.pattern = pattern
        self.unit = unit
        self.status = status
        self.detail = detail
        self.witness = witness
        self.inst = inst


class Ctx:
    def __init__(self, prop, tier, only_rule=None, only_construct=None):
        self.prop = prop
        self.tier = tier
        self.t0 = time.time()
        self.obs = []
        self.broken = []
        self.counts = {}
        self.notes = []
        self.not_decided = []
        self.assumptions = []
        self.explanation = ""
        self.extra = {}
        self.samples = []
        self.only_rule = only_rule
        self.only_construct = only_construct
        self._unit_names = None

    # ------------------------------------------------------------------ units
    def unit_names(self, want=None):
        names = QUICK_UNITS if self.tier == "quick" else THOROUGH_UNITS
        names = [n for n in names if os.path.exists(facts.UNITS[n][0])]
        # the C++11 macro-API unit is analysed only by rules that ask for it (rules written against the C++14 code
        # paths do not apply to the C++11 shims)
        names = [n for n in names if n != "cpp11" or getattr(want, "with_cpp11", False)]
        if want is not None:
            names = [n for n in names if want(n)]
        return names

    def units(self, want=None):
        names = self.unit_names(want)
        facts.extract_many(names)
        for n in names:
            yield facts.load(n)

    # ------------------------------------------------------------------ obligations
    def ob(self, rule, construct, ok, pattern="", unit="", detail="", witness=None, inst=""):
        """Record one evaluation of rule `rule` on `construct` (template-erased name).
        ok: True held, False violated, None analysis broken."""
        if self.only_rule and rule != self.only_rule:
            return
        if self.only_construct and construct != self.only_construct:
            return
        status = "held" if ok is True else "violated" if ok is False else "broken"
        self.obs.append(Ob(rule, construct, pattern, unit, status, detail, witness, inst))

    def held(self, rule, construct, **kw):
        self.ob(rule, construct, True, **kw)

    def violated(self, rule, construct, **kw):
        self.ob(rule, construct, False, **kw)

    def broke(self, reason):
        self.broken.append(reason)

    def floor(self, what, n, floor):
        """COUNT: a rule that matched fewer instances than confirmed by hand is broken."""
        self.counts[what] = n
        if n < floor:
            self.broken.append("%s: matched %d instance(s), hand-confirmed floor is %d" % (what, n, floor))

    def sample(self, s):
        if len(self.samples) < 12:
            self.samples.append(s)

    # ------------------------------------------------------------------ finish
    def finish(self):
        try:
            from . import selfcheck
            self.extra["engine_positive_controls"] = selfcheck.run()
        except AnalysisBroken as e:
            self.broken.append(str(e))
        for m in facts.BROKEN_NOTES:
            if m not in self.broken:
                self.broken.append(m)
        known = []
        if os.path.exists(KNOWN):
            known = json.load(open(KNOWN)).get("findings", [])
        open_known = {(k["rule"], k["construct"]): k for k in known
                      if k.get("status") == "open" and k.get("property") == self.prop}
        # aggregate
        agg = {}
        for o in self.obs:
            key = (o.rule, o.construct)
            a = agg.setdefault(key, {"rule": o.rule, "construct": o.construct, "pattern": o.pattern,
                                     "n": 0, "held": 0, "violated": [], "broken": []})
            a["n"] += 1
            if not a["pattern"] and o.pattern:
                a["pattern"] = o.pattern
            if o.status == "held":
                a["held"] += 1
            elif o.status == "violated":
                a["violated"].append(o)
            else:
                a["broken"].append(o)
        violations = []
        known_hits = []
        for key, a in agg.items():
            if a["broken"]:
                o = a["broken"][0]
                self.broken.append("%s on %s: %s" % (o.rule, o.construct, o.detail))
            if a["violated"]:
                if key in open_known:
                    known_hits.append((open_known[key], a))
                else:
                    violations.append(a)
        lines = []
        os.makedirs(REPLAYS, exist_ok=True)
        for old in os.listdir(REPLAYS):
            if old.startswith(self.prop + "-"):
                try:
                    os.remove(os.path.join(REPLAYS, old))
                except OSError:
                    pass
        for i, a in enumerate(violations):
            o = a["violated"][0]
            rp = os.path.join(REPLAYS, "%s-%d.json" % (self.prop, i))
            with open(rp, "w") as fh:
                json.dump({"property": self.prop, "rule": o.rule, "construct": o.construct,
                           "pattern": o.pattern or a["pattern"], "unit": o.unit, "instantiation": o.inst,
                           "detail": o.detail, "witness": o.witness,
                           "violating_instantiations": len(a["violated"]),
                           "instantiations_checked": a["n"]}, fh, indent=1)
            lines.append("%s: %s: %s: %s" % (o.pattern or a["pattern"], o.rule, o.construct, o.detail))
            lines.append("VIOLATION property=%s replay=%s" % (self.prop, rp))
        for k, a in known_hits:
            lines.append("KNOWN-FINDING: property=%s %s at %s: %s" %
                         (self.prop, k["rule"], k["construct"], k.get("history", "")))
        for b in self.broken:
            lines.append("ANALYSIS-BROKEN property=%s %s" % (self.prop, b))
        n_ob = len(agg)
        discharged = sum(1 for a in agg.values() if not a["violated"] and not a["broken"])
        evals = len(self.obs)
        ev = {
            "property_id": self.prop,
            "tier": self.tier,
            "seed": int(os.environ.get("VERIF_SEED", "0") or 0),
            "level": "other",
            "coverage": {
                "explanation": self.explanation,
                "obligations": n_ob,
                "discharged": discharged,
                "evaluations": evals,
                "distinct_nontrivial": n_ob,
                "rule": "one obligation = one rule applied to one source construct (template pattern); "
                        "evaluations = obligations x instantiations in the analysed units; an obligation "
                        "is non-trivial because a rule that matches no construct is reported as analysis "
                        "broken instead of being counted",
                "samples": self.samples[:12] or [
                    {"rule": a["rule"], "construct": a["construct"], "pattern": a["pattern"],
                     "instantiations": a["n"]} for a in list(agg.values())[:8]],
                "obligation_table": [
                    {"rule": a["rule"], "construct": a["construct"], "pattern": a["pattern"],
                     "instantiations_checked": a["n"],
                     "result": "violated" if a["violated"] else "broken" if a["broken"] else "held"}
                    for a in sorted(agg.values(), key=lambda x: (x["rule"], x["construct"]))],
                "instance_counts": self.counts,
                "units": self.extra.get("units", []),
                "not_decided": self.not_decided,
                "known_findings_printed": [k["rule"] + " @ " + k["construct"] for k, _ in known_hits],
                "analysis_broken": self.broken,
                "exhaustive": False,
            },
            "assumptions": self.assumptions,
            "wall_s": round(time.time() - self.t0, 3),
            "violations": len(violations),
        }
        for k, v in self.extra.items():
            if k != "units":
                ev["coverage"][k] = v
        os.makedirs(EVIDENCE, exist_ok=True)
        tmp = os.path.join(EVIDENCE, "%s.json.tmp%d" % (self.prop, os.getpid()))
        with open(tmp, "w") as fh:
            json.dump(ev, fh, indent=1)
        os.replace(tmp, os.path.join(EVIDENCE, "%s.json" % self.prop))
        for l in lines:
            print(l)
        print("%s %s: %d obligations, %d discharged, %d evaluations, %d violation(s), "
              "%d known finding(s), %d broken, %.1fs" %
              (self.prop, self.tier, n_ob, discharged, evals, len(violations), len(known_hits),
               len(self.broken), time.time() - self.t0))
        if violations:
            return 1
        if self.broken:
            return 2
        return 0
