// tvfacts: clang-14 frontend plugin that dumps, for every function with a body
// (template instantiations and implicit members included), its CFG as a list
// of blocks with ordered *events* and typed successor edges, as JSON lines.
//
//   clang++ -fsyntax-only -fplugin=tvfacts.so -Xclang -plugin -Xclang tvfacts \
//           -Xclang -plugin-arg-tvfacts -Xclang out=<file> file.cpp
//
// Nothing here knows about trompeloeil's rules; the python engine does.

#include <functional>
#include "clang/AST/ASTConsumer.h"
#include "clang/AST/ASTContext.h"
#include "clang/AST/DeclCXX.h"
#include "clang/AST/DeclTemplate.h"
#include "clang/AST/ExprCXX.h"
#include "clang/AST/RecursiveASTVisitor.h"
#include "clang/AST/StmtCXX.h"
#include "clang/Analysis/CFG.h"
#include "clang/Frontend/CompilerInstance.h"
#include "clang/Frontend/FrontendPluginRegistry.h"
#include "clang/Lex/Lexer.h"
#include "llvm/Support/JSON.h"
#include "llvm/Support/raw_ostream.h"

#include <map>
#include <set>
#include <string>
#include <vector>

using namespace clang;
namespace json = llvm::json;

namespace {

struct Extractor : public RecursiveASTVisitor<Extractor> {
  ASTContext &Ctx;
  SourceManager &SM;
  llvm::raw_fd_ostream &OS;
  PrintingPolicy PP;

  std::map<const FunctionDecl *, int> FnIds;
  std::vector<const FunctionDecl *> FnById;
  std::set<int> Emitted;
  std::set<int> Stubbed;
  std::set<const FunctionDecl *> VirtualNoReturn;
  std::map<const CXXRecordDecl *, int> ClsIds;
  std::vector<const CXXRecordDecl *> ClsById;
  std::set<int> ClsEmitted;

  // per function
  std::map<const VarDecl *, int> VarIds;
  const FunctionDecl *CurFn = nullptr;

  Extractor(ASTContext &C, llvm::raw_fd_ostream &O)
      : Ctx(C), SM(C.getSourceManager()), OS(O), PP(C.getLangOpts()) {
    PP.SuppressTagKeyword = true;
    PP.SuppressUnwrittenScope = false;
    PP.Bool = true;
    PP.AnonymousTagLocations = true;
  }

  bool shouldVisitTemplateInstantiations() const { return true; }
  bool shouldVisitImplicitCode() const { return true; }

  // ---------------------------------------------------------------- ids
  int idOf(const FunctionDecl *FD) {
    if (!FD) return -1;
    const FunctionDecl *Def = nullptr;
    if (FD->hasBody(Def) && Def) FD = Def;
    const FunctionDecl *Key = FD->getCanonicalDecl();
    auto It = FnIds.find(Key);
    if (It != FnIds.end()) return It->second;
    int Id = (int)FnById.size();
    FnIds[Key] = Id;
    FnById.push_back(FD);
    return Id;
  }

  int clsIdOf(const CXXRecordDecl *RD) {
    if (!RD) return -1;
    if (const CXXRecordDecl *D = RD->getDefinition()) RD = D;
    const CXXRecordDecl *Key = RD->getCanonicalDecl();
    auto It = ClsIds.find(Key);
    if (It != ClsIds.end()) return It->second;
    int Id = (int)ClsById.size();
    ClsIds[Key] = Id;
    ClsById.push_back(RD);
    return Id;
  }

  int varId(const VarDecl *VD) {
    auto It = VarIds.find(VD);
    if (It != VarIds.end()) return It->second;
    int Id = (int)VarIds.size();
    VarIds[VD] = Id;
    return Id;
  }

  // ---------------------------------------------------------------- names
  std::string locStr(SourceLocation L) {
    if (L.isInvalid()) return "";
    SourceLocation E = SM.getExpansionLoc(L);
    PresumedLoc P = SM.getPresumedLoc(E);
    if (P.isInvalid()) return "";
    return std::string(P.getFilename()) + ":" + std::to_string(P.getLine()) +
           ":" + std::to_string(P.getColumn());
  }
  // spelling location: where the tokens were written (inside macro bodies)
  std::string spellStr(SourceLocation L) {
    if (L.isInvalid()) return "";
    SourceLocation E = SM.getSpellingLoc(L);
    PresumedLoc P = SM.getPresumedLoc(E);
    if (P.isInvalid()) return "";
    return std::string(P.getFilename()) + ":" + std::to_string(P.getLine());
  }

  std::string fnName(const FunctionDecl *FD) {
    std::string S;
    llvm::raw_string_ostream O(S);
    FD->getNameForDiagnostic(O, PP, /*Qualified=*/true);
    O.flush();
    return S;
  }
  std::string clsName(const CXXRecordDecl *RD) {
    std::string S;
    llvm::raw_string_ostream O(S);
    RD->getNameForDiagnostic(O, PP, true);
    O.flush();
    return S;
  }
  std::string typeStr(QualType T) {
    if (T.isNull()) return "";
    return T.getCanonicalType().getAsString(PP);
  }
  std::string typeStrSugar(QualType T) {
    if (T.isNull()) return "";
    return T.getAsString(PP);
  }

  std::vector<std::string> macroChain(SourceLocation L) {
    std::vector<std::string> R;
    int Guard = 0;
    while (L.isMacroID() && Guard++ < 32) {
      StringRef N = Lexer::getImmediateMacroName(L, SM, Ctx.getLangOpts());
      if (!N.empty() && (R.empty() || R.back() != N.str())) R.push_back(N.str());
      L = SM.getImmediateMacroCallerLoc(L);
    }
    return R;
  }

  const FunctionDecl *patternOf(const FunctionDecl *FD) {
    if (const FunctionDecl *P = FD->getTemplateInstantiationPattern()) return P;
    return FD;
  }

  const Expr *coOperand(const CoroutineSuspendExpr *X) {
    if (auto *Y = dyn_cast<CoyieldExpr>(X)) return Y->getOperand();
    if (auto *A = dyn_cast<CoawaitExpr>(X)) return A->getOperand();
    return X->getCommonExpr();
  }
  // ---------------------------------------------------------------- expr trees
  json::Value ser(const Expr *E, int Depth = 0) {
    if (!E) return nullptr;
    if (Depth > 14) return json::Array{"..."};
    // unwrap
    for (;;) {
      const Expr *N = E->IgnoreParens();
      if (auto *X = dyn_cast<ExprWithCleanups>(N)) N = X->getSubExpr();
      else if (auto *X = dyn_cast<MaterializeTemporaryExpr>(N)) N = X->getSubExpr();
      else if (auto *X = dyn_cast<CXXBindTemporaryExpr>(N)) N = X->getSubExpr();
      else if (auto *X = dyn_cast<ImplicitCastExpr>(N)) N = X->getSubExpr();
      else if (auto *X = dyn_cast<ConstantExpr>(N)) N = X->getSubExpr();
      else if (auto *X = dyn_cast<SubstNonTypeTemplateParmExpr>(N)) N = X->getReplacement();
      else if (auto *X = dyn_cast<CXXFunctionalCastExpr>(N)) N = X->getSubExpr();
      else if (auto *X = dyn_cast<CXXDefaultArgExpr>(N)) N = X->getExpr();
      else if (auto *X = dyn_cast<CXXDefaultInitExpr>(N)) N = X->getExpr();
      else if (auto *X = dyn_cast<CXXRewrittenBinaryOperator>(N)) N = X->getSemanticForm();
      if (N == E) break;
      E = N;
      if (!E) return nullptr;
    }
    // literals / constants
    if (auto *X = dyn_cast<IntegerLiteral>(E))
      return json::Array{"int", X->getValue().getLimitedValue()};
    if (auto *X = dyn_cast<CXXBoolLiteralExpr>(E))
      return json::Array{"bool", X->getValue()};
    if (isa<CXXNullPtrLiteralExpr>(E) || isa<GNUNullExpr>(E))
      return json::Array{"null"};
    if (auto *X = dyn_cast<StringLiteral>(E)) {
      if (X->getCharByteWidth() == 1) return json::Array{"str", X->getString().str()};
      return json::Array{"str", "<wide>"};
    }
    if (auto *X = dyn_cast<CharacterLiteral>(E))
      return json::Array{"char", (int64_t)X->getValue()};
    if (isa<FloatingLiteral>(E)) return json::Array{"float"};
    if (isa<CXXThisExpr>(E)) return json::Array{"this"};
    if (auto *X = dyn_cast<DeclRefExpr>(E)) {
      const ValueDecl *D = X->getDecl();
      if (auto *EC = dyn_cast<EnumConstantDecl>(D))
        return json::Array{"enum", EC->getQualifiedNameAsString()};
      if (auto *PV = dyn_cast<ParmVarDecl>(D)) {
        int Idx = (int)PV->getFunctionScopeIndex();
        bool Own = false;
        if (CurFn)
          for (auto *P : CurFn->parameters())
            if (P == PV) Own = true;
        if (Own) return json::Array{"param", Idx, PV->getNameAsString()};
        return json::Array{"oparam", Idx, PV->getNameAsString()};
      }
      if (auto *VD = dyn_cast<VarDecl>(D)) {
        if (VD->isLocalVarDecl() && !VD->isStaticLocal())
          return json::Array{"var", varId(VD), VD->getNameAsString()};
        if (VD->getTLSKind() != VarDecl::TLS_None)
          return json::Array{"gvar", VD->getQualifiedNameAsString(),
                             VD->isStaticLocal() ? "staticlocal" : "global", "tls"};
        // a namespace-scope named constant (const / constexpr integral with a constant initialiser) is its value
        if (!VD->isStaticLocal() && !VD->isStaticDataMember() && VD->getType().isConstQualified() &&
            VD->getType()->isIntegralOrEnumerationType() && !VD->getType()->isBooleanType() && VD->hasInit() &&
            !VD->getInit()->isValueDependent() && !VD->getInit()->isTypeDependent()) {
          if (const APValue *AV = VD->evaluateValue())
            if (AV->isInt()) {
              llvm::APSInt V = AV->getInt();
              if (V.isUnsigned()) {
                if (V.isMaxValue()) return json::Array{"int", "max", (int64_t)V.getBitWidth()};
                return json::Array{"int", V.getLimitedValue()};
              }
              return json::Array{"int", V.getExtValue()};
            }
        }
        return json::Array{"gvar", VD->getQualifiedNameAsString(),
                           VD->isStaticLocal() ? "staticlocal" : "global"};
      }
      if (auto *FD = dyn_cast<FunctionDecl>(D))
        return json::Array{"fnref", idOf(FD), fnName(FD)};
      if (auto *BD = dyn_cast<BindingDecl>(D))
        return json::Array{"binding", BD->getNameAsString()};
      return json::Array{"decl", D->getNameAsString()};
    }
    if (auto *X = dyn_cast<UnaryExprOrTypeTraitExpr>(E)) {
      if (X->getKind() == UETT_SizeOf && !X->isValueDependent())
        return json::Array{"sizeof", typeStr(X->getTypeOfArgument())};
    }
    // constant folding of small integral expressions (e.g. ~0U, 0ULL)
    if ((isa<UnaryOperator>(E) || isa<BinaryOperator>(E) || isa<ExplicitCastExpr>(E) ||
         isa<UnaryExprOrTypeTraitExpr>(E)) &&
        !E->isValueDependent() && !E->isTypeDependent() &&
        E->getType()->isIntegralOrEnumerationType()) {
      Expr::EvalResult R;
      if (E->EvaluateAsInt(R, Ctx, Expr::SE_NoSideEffects) && R.Val.isInt()) {
        llvm::APSInt V = R.Val.getInt();
        if (E->getType()->isBooleanType()) return json::Array{"bool", V.getBoolValue()};
        if (V.isUnsigned()) {
          bool AllOnes = V.isMaxValue();
          if (AllOnes) return json::Array{"int", "max", (int64_t)V.getBitWidth()};
          return json::Array{"int", V.getLimitedValue()};
        }
        return json::Array{"int", V.getExtValue()};
      }
    }
    if (auto *X = dyn_cast<MemberExpr>(E)) {
      const ValueDecl *D = X->getMemberDecl();
      if (auto *FD = dyn_cast<FieldDecl>(D))
        return json::Array{"member", FD->getQualifiedNameAsString(), ser(X->getBase(), Depth + 1),
                           X->isArrow()};
      if (auto *MD = dyn_cast<CXXMethodDecl>(D))
        return json::Array{"method", idOf(MD), fnName(MD), ser(X->getBase(), Depth + 1)};
      if (auto *VD = dyn_cast<VarDecl>(D))
        return json::Array{"gvar", VD->getQualifiedNameAsString(), "staticmember"};
      return json::Array{"member?", D->getNameAsString()};
    }
    if (auto *X = dyn_cast<UnaryOperator>(E))
      return json::Array{"u", UnaryOperator::getOpcodeStr(X->getOpcode()).str(),
                         ser(X->getSubExpr(), Depth + 1)};
    if (auto *X = dyn_cast<BinaryOperator>(E))
      return json::Array{"b", X->getOpcodeStr().str(), ser(X->getLHS(), Depth + 1),
                         ser(X->getRHS(), Depth + 1)};
    if (auto *X = dyn_cast<ConditionalOperator>(E))
      return json::Array{"?:", ser(X->getCond(), Depth + 1), ser(X->getTrueExpr(), Depth + 1),
                         ser(X->getFalseExpr(), Depth + 1)};
    if (auto *X = dyn_cast<CXXOperatorCallExpr>(E)) {
      json::Array A;
      for (const Expr *Arg : X->arguments()) A.push_back(ser(Arg, Depth + 1));
      const FunctionDecl *Callee = X->getDirectCallee();
      return json::Array{"opcall", idOf(Callee), Callee ? fnName(Callee) : "",
                         getOperatorSpelling(X->getOperator()), std::move(A)};
    }
    if (auto *X = dyn_cast<CXXMemberCallExpr>(E)) {
      json::Array A;
      for (const Expr *Arg : X->arguments()) A.push_back(ser(Arg, Depth + 1));
      const CXXMethodDecl *MD = X->getMethodDecl();
      bool Virt = false;
      if (MD && MD->isVirtual()) {
        Virt = true;
        if (auto *ME = dyn_cast<MemberExpr>(X->getCallee()->IgnoreParens()))
          if (ME->hasQualifier()) Virt = false;
      }
      return json::Array{"mcall", idOf(MD), MD ? fnName(MD) : "",
                         ser(X->getImplicitObjectArgument(), Depth + 1), std::move(A), Virt};
    }
    if (auto *X = dyn_cast<CallExpr>(E)) {
      json::Array A;
      for (const Expr *Arg : X->arguments()) A.push_back(ser(Arg, Depth + 1));
      const FunctionDecl *Callee = X->getDirectCallee();
      if (Callee) return json::Array{"call", idOf(Callee), fnName(Callee), std::move(A)};
      return json::Array{"icall", ser(X->getCallee(), Depth + 1), std::move(A)};
    }
    if (auto *X = dyn_cast<CXXConstructExpr>(E)) {
      json::Array A;
      for (const Expr *Arg : X->arguments()) A.push_back(ser(Arg, Depth + 1));
      return json::Array{"ctor", idOf(X->getConstructor()), typeStr(X->getType()), std::move(A),
                         X->isElidable()};
    }
    if (auto *X = dyn_cast<LambdaExpr>(E))
      return json::Array{"lambda", clsIdOf(X->getLambdaClass())};
    if (auto *X = dyn_cast<CXXNewExpr>(E)) {
      return json::Array{"new", typeStr(X->getAllocatedType()),
                         (int64_t)X->getNumPlacementArgs(),
                         X->getInitializer() ? ser(X->getInitializer(), Depth + 1) : json::Value(nullptr)};
    }
    if (auto *X = dyn_cast<CXXDeleteExpr>(E))
      return json::Array{"delete", ser(X->getArgument(), Depth + 1)};
    if (auto *X = dyn_cast<ExplicitCastExpr>(E))
      return json::Array{"cast", typeStr(X->getType()), ser(X->getSubExpr(), Depth + 1)};
    if (auto *X = dyn_cast<InitListExpr>(E)) {
      json::Array A;
      for (const Expr *I : X->inits()) A.push_back(ser(I, Depth + 1));
      return json::Array{"initlist", typeStr(X->getType()), std::move(A)};
    }
    if (auto *X = dyn_cast<CXXStdInitializerListExpr>(E))
      return json::Array{"stdinitlist", ser(X->getSubExpr(), Depth + 1)};
    if (auto *X = dyn_cast<CXXThrowExpr>(E))
      return json::Array{"throw", X->getSubExpr() ? ser(X->getSubExpr(), Depth + 1) : json::Value(nullptr)};
    if (auto *X = dyn_cast<CoroutineSuspendExpr>(E))
      return json::Array{isa<CoyieldExpr>(X) ? "co_yield" : "co_await",
                         ser(coOperand(X), Depth + 1)};
    if (auto *X = dyn_cast<ArraySubscriptExpr>(E))
      return json::Array{"index", ser(X->getBase(), Depth + 1), ser(X->getIdx(), Depth + 1)};
    if (auto *X = dyn_cast<CXXScalarValueInitExpr>(E))
      return json::Array{"zero", typeStr(X->getType())};
    if (auto *X = dyn_cast<OpaqueValueExpr>(E))
      return X->getSourceExpr() ? ser(X->getSourceExpr(), Depth + 1) : json::Value(json::Array{"opaque"});
    if (auto *X = dyn_cast<CXXTypeidExpr>(E)) {
      (void)X;
      return json::Array{"typeid"};
    }
    return json::Array{"?", E->getStmtClassName()};
  }

  // ---------------------------------------------------------------- events
  json::Object dtorEvent(const char *Kind, const CXXDestructorDecl *DD, QualType T) {
    json::Object O;
    O["e"] = "dtor";
    O["kind"] = Kind;
    O["callee"] = idOf(DD);
    O["q"] = DD ? fnName(DD) : "";
    O["type"] = typeStr(T);
    O["virt"] = DD ? DD->isVirtual() : false;
    return O;
  }

  const CXXDestructorDecl *dtorOfType(QualType T) {
    T = T.getNonReferenceType();
    while (const ArrayType *AT = Ctx.getAsArrayType(T)) T = AT->getElementType();
    if (const CXXRecordDecl *RD = T->getAsCXXRecordDecl())
      if (RD->hasDefinition()) return RD->getDestructor();
    return nullptr;
  }

  void stmtEvents(const Stmt *S, json::Array &Ev, bool Lite) {
    auto Loc = [&](const Stmt *X) { return locStr(X->getBeginLoc()); };
    if (auto *X = dyn_cast<CXXOperatorCallExpr>(S)) {
      json::Object O;
      O["e"] = "call";
      O["loc"] = Loc(X);
      const FunctionDecl *Callee = X->getDirectCallee();
      O["callee"] = idOf(Callee);
      if (!Lite) {
        O["q"] = Callee ? fnName(Callee) : "";
        O["op"] = getOperatorSpelling(X->getOperator());
        json::Array A;
        for (const Expr *Arg : X->arguments()) A.push_back(ser(Arg, 1));
        if (Callee && isa<CXXMethodDecl>(Callee) && !A.empty()) {
          O["recv"] = std::move(A[0]);
          json::Array Rest;
          for (size_t K = 1; K < A.size(); ++K) Rest.push_back(std::move(A[K]));
          O["args"] = std::move(Rest);
        } else
          O["args"] = std::move(A);
      }
      Ev.push_back(std::move(O));
      return;
    }
    if (auto *X = dyn_cast<CXXMemberCallExpr>(S)) {
      json::Object O;
      O["e"] = "call";
      O["loc"] = Loc(X);
      const CXXMethodDecl *MD = X->getMethodDecl();
      O["callee"] = idOf(MD);
      bool Virt = false;
      if (MD && MD->isVirtual()) {
        Virt = true;
        if (auto *ME = dyn_cast<MemberExpr>(X->getCallee()->IgnoreParens()))
          if (ME->hasQualifier()) Virt = false;
      }
      if (Virt) O["virt"] = true;
      if (!Lite) {
        O["q"] = MD ? fnName(MD) : "";
        O["recv"] = ser(X->getImplicitObjectArgument(), 1);
        json::Array A;
        for (const Expr *Arg : X->arguments()) A.push_back(ser(Arg, 1));
        O["args"] = std::move(A);
      }
      Ev.push_back(std::move(O));
      return;
    }
    if (auto *X = dyn_cast<CallExpr>(S)) {
      json::Object O;
      O["e"] = "call";
      O["loc"] = Loc(X);
      const FunctionDecl *Callee = X->getDirectCallee();
      O["callee"] = idOf(Callee);
      if (!Callee) O["indirect"] = true;
      if (!Lite) {
        O["q"] = Callee ? fnName(Callee) : "";
        if (!Callee) O["target"] = ser(X->getCallee(), 1);
        json::Array A;
        for (const Expr *Arg : X->arguments()) A.push_back(ser(Arg, 1));
        O["args"] = std::move(A);
      }
      Ev.push_back(std::move(O));
      return;
    }
    if (auto *X = dyn_cast<CXXConstructExpr>(S)) {
      json::Object O;
      O["e"] = "ctor";
      O["loc"] = Loc(X);
      O["callee"] = idOf(X->getConstructor());
      if (X->isElidable()) O["elidable"] = true;
      if (!Lite) {
        O["q"] = fnName(X->getConstructor());
        O["type"] = typeStr(X->getType());
        json::Array A;
        for (const Expr *Arg : X->arguments()) A.push_back(ser(Arg, 1));
        O["args"] = std::move(A);
      }
      Ev.push_back(std::move(O));
      return;
    }
    if (auto *X = dyn_cast<CXXNewExpr>(S)) {
      json::Object O;
      O["e"] = "new";
      O["loc"] = Loc(X);
      O["type"] = typeStr(X->getAllocatedType());
      O["placement"] = (int64_t)X->getNumPlacementArgs();
      O["opnew"] = idOf(X->getOperatorNew());
      Ev.push_back(std::move(O));
      return;
    }
    if (auto *X = dyn_cast<CXXDeleteExpr>(S)) {
      json::Object O;
      O["e"] = "delete";
      O["loc"] = Loc(X);
      if (!Lite) O["arg"] = ser(X->getArgument(), 1);
      QualType DT = X->getDestroyedType();
      const CXXDestructorDecl *DD = DT.isNull() ? nullptr : dtorOfType(DT);
      O["callee"] = idOf(DD);
      O["virt"] = DD ? DD->isVirtual() : false;
      O["type"] = typeStr(DT);
      Ev.push_back(std::move(O));
      return;
    }
    if (auto *X = dyn_cast<CXXThrowExpr>(S)) {
      json::Object O;
      O["e"] = "throw";
      O["loc"] = Loc(X);
      if (X->getSubExpr()) {
        O["type"] = typeStr(X->getSubExpr()->getType());
        if (!Lite) O["x"] = ser(X->getSubExpr(), 1);
      } else
        O["rethrow"] = true;
      Ev.push_back(std::move(O));
      return;
    }
    if (auto *X = dyn_cast<ReturnStmt>(S)) {
      json::Object O;
      O["e"] = "return";
      O["loc"] = Loc(X);
      if (!Lite && X->getRetValue()) O["x"] = ser(X->getRetValue(), 1);
      Ev.push_back(std::move(O));
      return;
    }
    if (auto *X = dyn_cast<CoreturnStmt>(S)) {
      json::Object O;
      O["e"] = "co_return";
      O["loc"] = Loc(X);
      if (X->isImplicit()) O["implicit"] = true;
      if (X->getOperand()) O["x"] = ser(X->getOperand(), 1);
      Ev.push_back(std::move(O));
      return;
    }
    if (auto *X = dyn_cast<CoroutineSuspendExpr>(S)) {
      json::Object O;
      O["e"] = isa<CoyieldExpr>(X) ? "co_yield" : "co_await";
      O["loc"] = Loc(X);
      O["implicit"] = isa<CoawaitExpr>(X) ? cast<CoawaitExpr>(X)->isImplicit() : false;
      const Expr *Op = coOperand(X);
      if (Op) O["x"] = ser(Op, 1);
      Ev.push_back(std::move(O));
      return;
    }
    if (Lite) return;
    if (auto *X = dyn_cast<BinaryOperator>(S)) {
      if (X->isAssignmentOp()) {
        json::Object O;
        O["e"] = "assign";
        O["loc"] = Loc(X);
        O["op"] = X->getOpcodeStr().str();
        O["lhs"] = ser(X->getLHS(), 1);
        O["rhs"] = ser(X->getRHS(), 1);
        Ev.push_back(std::move(O));
      }
      return;
    }
    if (auto *X = dyn_cast<UnaryOperator>(S)) {
      if (X->isIncrementDecrementOp()) {
        json::Object O;
        O["e"] = "incdec";
        O["loc"] = Loc(X);
        O["op"] = UnaryOperator::getOpcodeStr(X->getOpcode()).str();
        O["x"] = ser(X->getSubExpr(), 1);
        Ev.push_back(std::move(O));
      } else if (X->getOpcode() == UO_Deref) {
        json::Object O;
        O["e"] = "deref";
        O["loc"] = Loc(X);
        O["x"] = ser(X->getSubExpr(), 1);
        Ev.push_back(std::move(O));
      }
      return;
    }
    if (auto *X = dyn_cast<MemberExpr>(S)) {
      if (auto *FD = dyn_cast<FieldDecl>(X->getMemberDecl())) {
        json::Object O;
        O["e"] = "member";
        O["loc"] = Loc(X);
        O["field"] = FD->getQualifiedNameAsString();
        O["base"] = ser(X->getBase(), 1);
        if (X->isArrow()) O["arrow"] = true;
        Ev.push_back(std::move(O));
      }
      return;
    }
    if (auto *X = dyn_cast<DeclStmt>(S)) {
      for (const Decl *D : X->decls()) {
        if (auto *VD = dyn_cast<VarDecl>(D)) {
          json::Object O;
          O["e"] = "decl";
          O["loc"] = locStr(VD->getLocation());
          O["var"] = varId(VD);
          O["name"] = VD->getNameAsString();
          O["type"] = typeStr(VD->getType());
          if (VD->isStaticLocal()) O["static"] = true;
          if (VD->getTLSKind() != VarDecl::TLS_None) O["tls"] = true;
          if (VD->getInit()) O["init"] = ser(VD->getInit(), 1);
          Ev.push_back(std::move(O));
        }
      }
      return;
    }
    if (auto *X = dyn_cast<LambdaExpr>(S)) {
      json::Object O;
      O["e"] = "lambda";
      O["loc"] = Loc(X);
      O["cls"] = clsIdOf(X->getLambdaClass());
      O["callop"] = idOf(X->getCallOperator());
      Ev.push_back(std::move(O));
      return;
    }
  }

  // ---------------------------------------------------------------- function
  void emitFunction(const FunctionDecl *FD) {
    const FunctionDecl *Def = nullptr;
    if (!FD->hasBody(Def) || !Def) return;
    FD = Def;
    if (FD->isDependentContext()) return;
    if (FD->isInvalidDecl()) return;
    int Id = idOf(FD);
    if (!Emitted.insert(Id).second) return;

    VarIds.clear();
    CurFn = FD;

    std::string Q = fnName(FD);
    bool IsStd = Q.rfind("std::", 0) == 0 || Q.rfind("__gnu_cxx::", 0) == 0 ||
                 Q.rfind("__cxxabiv1::", 0) == 0;
    std::string BodyFile = locStr(FD->getLocation());
    bool Lite = IsStd;

    json::Object F;
    F["k"] = "fn";
    F["id"] = Id;
    F["q"] = Q;
    F["loc"] = BodyFile;
    const FunctionDecl *Pat = patternOf(FD);
    F["pat"] = locStr(Pat->getLocation());
    F["patspell"] = spellStr(Pat->getLocation());
    F["std"] = IsStd;
    F["implicit"] = FD->isImplicit();
    F["defaulted"] = FD->isDefaulted();
    F["noreturn"] = FD->isNoReturn();
    if (VirtualNoReturn.count(FD->getCanonicalDecl())) F["virtual_noreturn_declared"] = true;
    F["ret"] = typeStr(FD->getReturnType());
    F["variadic_pack"] = false;
    {
      json::Array Ps;
      for (auto *P : FD->parameters()) {
        json::Object PO;
        PO["n"] = P->getNameAsString();
        PO["t"] = typeStr(P->getType());
        // a default argument changes what a shorter call means: rules must see it
        if (P->hasDefaultArg() && !P->hasUninstantiatedDefaultArg() && !P->hasUnparsedDefaultArg() &&
            P->getDefaultArg())
          PO["default"] = ser(P->getDefaultArg(), 1);
        Ps.push_back(std::move(PO));
      }
      F["params"] = std::move(Ps);
    }
    const char *Kind = "function";
    if (auto *MD = dyn_cast<CXXMethodDecl>(FD)) {
      Kind = "method";
      if (isa<CXXConstructorDecl>(MD)) {
        Kind = "ctor";
        auto *CD = cast<CXXConstructorDecl>(MD);
        if (CD->isCopyConstructor()) F["special"] = "copy_ctor";
        else if (CD->isMoveConstructor()) F["special"] = "move_ctor";
        else if (CD->isDefaultConstructor()) F["special"] = "default_ctor";
      } else if (isa<CXXDestructorDecl>(MD))
        Kind = "dtor";
      else if (isa<CXXConversionDecl>(MD))
        Kind = "conversion";
      if (MD->isCopyAssignmentOperator()) F["special"] = "copy_assign";
      if (MD->isMoveAssignmentOperator()) F["special"] = "move_assign";
      const CXXRecordDecl *RD = MD->getParent();
      F["cls"] = clsIdOf(RD);
      F["clsq"] = clsName(RD);
      F["static"] = MD->isStatic();
      F["const"] = MD->isConst();
      F["virtual"] = MD->isVirtual();
      json::Array Ov;
      for (const CXXMethodDecl *O : MD->overridden_methods()) Ov.push_back(idOf(O));
      F["overrides"] = std::move(Ov);
      if (RD->isLambda()) {
        F["lambda"] = true;
        json::Array MC;
        for (auto &M : macroChain(RD->getBeginLoc())) MC.push_back(M);
        F["macros"] = std::move(MC);
        F["capdef"] = (int64_t)RD->getLambdaCaptureDefault();
      }
    }
    F["kind"] = Kind;
    if (FD->getBody() && isa<CoroutineBodyStmt>(FD->getBody())) F["coro"] = true;
    {
      json::Array MC;
      for (auto &M : macroChain(FD->getLocation())) MC.push_back(M);
      if (!MC.empty()) F["fnmacros"] = std::move(MC);
    }

    // ---- CFG
    CFG::BuildOptions BO;
    BO.setAllAlwaysAdd();
    BO.AddImplicitDtors = true;
    BO.AddTemporaryDtors = true;
    BO.AddInitializers = true;
    BO.AddCXXDefaultInitExprInCtors = true;
    BO.AddEHEdges = false;
    std::unique_ptr<CFG> G = CFG::buildCFG(FD, FD->getBody(), &Ctx, BO);
    if (!G) {
      F["cfg"] = nullptr;
      OS << json::Value(std::move(F)) << "\n";
      CurFn = nullptr;
      return;
    }
    // ---- try scopes: which statements lie lexically inside which try block (the CFG without EH edges
    // does not say); every event carries the chain of enclosing try statements, innermost first
    llvm::DenseMap<const Stmt *, int> TryOf;
    std::vector<int> TryParent;
    {
      json::Array Tries;
      std::function<void(const Stmt *, int)> Walk = [&](const Stmt *S, int Cur) {
        if (!S) return;
        if (auto *TS = dyn_cast<CXXTryStmt>(S)) {
          int Idx = (int)TryParent.size();
          TryParent.push_back(Cur);
          json::Object TO;
          TO["id"] = (int64_t)Idx;
          TO["loc"] = locStr(TS->getBeginLoc());
          TO["parent"] = (int64_t)Cur;
          json::Array Hs;
          for (unsigned K = 0; K < TS->getNumHandlers(); ++K) {
            const CXXCatchStmt *CS = TS->getHandler(K);
            Hs.push_back(CS->getExceptionDecl() ? typeStr(CS->getCaughtType()) : std::string("..."));
          }
          TO["handlers"] = std::move(Hs);
          Tries.push_back(std::move(TO));
          Walk(TS->getTryBlock(), Idx);
          for (unsigned K = 0; K < TS->getNumHandlers(); ++K) Walk(TS->getHandler(K), Cur);
          return;
        }
        if (isa<LambdaExpr>(S)) return;   // a lambda body is another function
        if (Cur >= 0) TryOf[S] = Cur;
        for (const Stmt *C : S->children()) Walk(C, Cur);
      };
      Walk(FD->getBody(), -1);
      if (!Tries.empty()) F["tries"] = std::move(Tries);
    }
    auto TagTry = [&](const Stmt *S, json::Array &Ev, size_t From) {
      auto It = TryOf.find(S);
      if (It == TryOf.end()) return;
      for (size_t K = From; K < Ev.size(); ++K) {
        json::Array Ch;
        for (int T = It->second; T >= 0; T = TryParent[T]) Ch.push_back((int64_t)T);
        if (auto *O = Ev[K].getAsObject()) (*O)["try"] = std::move(Ch);
      }
    };
    json::Array Blocks;
    for (const CFGBlock *B : *G) {
      json::Object BO2;
      BO2["id"] = (int64_t)B->getBlockID();
      json::Array Ev;
      if (const Stmt *L = B->getLabel()) {
        if (auto *CS = dyn_cast<CXXCatchStmt>(L)) {
          BO2["catch"] = CS->getExceptionDecl() ? typeStr(CS->getCaughtType()) : "...";
        }
      }
      for (const CFGElement &El : *B) {
        switch (El.getKind()) {
        case CFGElement::Statement:
        case CFGElement::Constructor:
        case CFGElement::CXXRecordTypedCall:
        {
          size_t From = Ev.size();
          const Stmt *ES = El.castAs<CFGStmt>().getStmt();
          stmtEvents(ES, Ev, Lite);
          TagTry(ES, Ev, From);
          break;
        }
        case CFGElement::Initializer: {
          const CXXCtorInitializer *I = El.castAs<CFGInitializer>().getInitializer();
          if (Lite) break;
          json::Object O;
          O["e"] = "init";
          if (I->isAnyMemberInitializer()) {
            O["field"] = I->getAnyMember()->getQualifiedNameAsString();
            O["ftype"] = typeStr(I->getAnyMember()->getType());
          } else if (I->isBaseInitializer())
            O["base"] = typeStr(QualType(I->getBaseClass(), 0));
          else if (I->isDelegatingInitializer())
            O["delegating"] = true;
          O["written"] = I->isWritten();
          O["x"] = ser(I->getInit(), 1);
          Ev.push_back(std::move(O));
          break;
        }
        case CFGElement::AutomaticObjectDtor: {
          auto D = El.castAs<CFGAutomaticObjDtor>();
          const VarDecl *VD = D.getVarDecl();
          const CXXDestructorDecl *DD = dtorOfType(VD->getType());
          json::Object O = dtorEvent("auto", DD, VD->getType());
          O["var"] = varId(VD);
          O["name"] = VD->getNameAsString();
          Ev.push_back(std::move(O));
          break;
        }
        case CFGElement::TemporaryDtor: {
          auto D = El.castAs<CFGTemporaryDtor>();
          const CXXBindTemporaryExpr *BT = D.getBindTemporaryExpr();
          const CXXDestructorDecl *DD = BT->getTemporary()->getDestructor();
          json::Object O = dtorEvent("temp", DD, BT->getType());
          O["loc"] = locStr(BT->getBeginLoc());
          Ev.push_back(std::move(O));
          break;
        }
        case CFGElement::MemberDtor: {
          auto D = El.castAs<CFGMemberDtor>();
          const FieldDecl *FDl = D.getFieldDecl();
          const CXXDestructorDecl *DD = dtorOfType(FDl->getType());
          json::Object O = dtorEvent("member", DD, FDl->getType());
          O["field"] = FDl->getQualifiedNameAsString();
          Ev.push_back(std::move(O));
          break;
        }
        case CFGElement::BaseDtor: {
          auto D = El.castAs<CFGBaseDtor>();
          QualType BT = D.getBaseSpecifier()->getType();
          const CXXDestructorDecl *DD = dtorOfType(BT);
          json::Object O = dtorEvent("base", DD, BT);
          Ev.push_back(std::move(O));
          break;
        }
        case CFGElement::DeleteDtor: {
          // the CXXDeleteExpr statement itself carries the information
          break;
        }
        default:
          break;
        }
      }
      BO2["ev"] = std::move(Ev);
      // terminator
      if (B->getTerminator().isValid()) {
        json::Object T;
        const Stmt *TS = B->getTerminatorStmt();
        const char *TK = "other";
        if (B->getTerminator().getKind() == CFGTerminator::TemporaryDtorsBranch) TK = "tempdtor";
        else if (B->getTerminator().getKind() == CFGTerminator::VirtualBaseBranch) TK = "vbase";
        else if (TS) {
          if (isa<IfStmt>(TS)) TK = "if";
          else if (isa<WhileStmt>(TS)) TK = "while";
          else if (isa<ForStmt>(TS)) TK = "for";
          else if (isa<CXXForRangeStmt>(TS)) TK = "rangefor";
          else if (isa<DoStmt>(TS)) TK = "do";
          else if (isa<SwitchStmt>(TS)) TK = "switch";
          else if (isa<CXXTryStmt>(TS)) TK = "try";
          else if (isa<ConditionalOperator>(TS)) TK = "?:";
          else if (auto *BOp = dyn_cast<BinaryOperator>(TS)) TK = BOp->getOpcode() == BO_LAnd ? "&&" : "||";
          else if (isa<BreakStmt>(TS)) TK = "break";
          else if (isa<ContinueStmt>(TS)) TK = "continue";
          else if (isa<GotoStmt>(TS)) TK = "goto";
        }
        T["kind"] = TK;
        if (TS) T["loc"] = locStr(TS->getBeginLoc());
        if (!Lite) {
          const Expr *C = B->getLastCondition();
          if (!C && TS) {
            const Stmt *TC = B->getTerminatorCondition();
            C = dyn_cast_or_null<Expr>(TC);
          }
          if (C) T["cond"] = ser(C, 0);
        }
        BO2["term"] = std::move(T);
      }
      json::Array Succ;
      for (auto I = B->succ_begin(), E2 = B->succ_end(); I != E2; ++I) {
        const CFGBlock *S = I->getReachableBlock();
        if (S) Succ.push_back((int64_t)S->getBlockID());
        else Succ.push_back(nullptr);
      }
      BO2["succ"] = std::move(Succ);
      Blocks.push_back(std::move(BO2));
    }
    F["entry"] = (int64_t)G->getEntry().getBlockID();
    F["exit"] = (int64_t)G->getExit().getBlockID();
    F["blocks"] = std::move(Blocks);
    OS << json::Value(std::move(F)) << "\n";
    CurFn = nullptr;
  }

  void emitClass(int Id) {
    if (!ClsEmitted.insert(Id).second) return;
    const CXXRecordDecl *RD = ClsById[Id];
    json::Object C;
    C["k"] = "class";
    C["id"] = Id;
    C["q"] = clsName(RD);
    C["loc"] = locStr(RD->getLocation());
    C["lambda"] = RD->isLambda();
    if (!RD->hasDefinition() || RD->isDependentContext()) {
      C["incomplete"] = true;
      OS << json::Value(std::move(C)) << "\n";
      return;
    }
    if (auto *CTS = dyn_cast<ClassTemplateSpecializationDecl>(RD)) {
      auto P = CTS->getSpecializedTemplateOrPartial();
      if (auto *T = P.dyn_cast<ClassTemplateDecl *>()) C["pat"] = locStr(T->getLocation());
      else if (auto *PS = P.dyn_cast<ClassTemplatePartialSpecializationDecl *>()) C["pat"] = locStr(PS->getLocation());
    }
    json::Array Bases;
    for (const auto &B : RD->bases()) {
      json::Object BO;
      BO["t"] = typeStr(B.getType());
      BO["cls"] = clsIdOf(B.getType()->getAsCXXRecordDecl());
      BO["virtual"] = B.isVirtual();
      Bases.push_back(std::move(BO));
    }
    C["bases"] = std::move(Bases);
    json::Array Fields;
    for (const FieldDecl *FD : RD->fields()) {
      json::Object FO;
      FO["n"] = FD->getNameAsString();
      FO["q"] = FD->getQualifiedNameAsString();
      FO["t"] = typeStr(FD->getType());
      FO["ts"] = typeStrSugar(FD->getType());
      FO["mutable"] = FD->isMutable();
      FO["hasinit"] = FD->hasInClassInitializer();
      Fields.push_back(std::move(FO));
    }
    C["fields"] = std::move(Fields);
    if (const CXXDestructorDecl *DD = RD->getDestructor()) {
      C["dtor"] = idOf(DD);
      C["dtor_virtual"] = DD->isVirtual();
      C["dtor_user"] = DD->isUserProvided();
    }
    json::Object Sp;
    for (const CXXMethodDecl *MD : RD->methods()) {
      const char *K = nullptr;
      if (auto *CD = dyn_cast<CXXConstructorDecl>(MD)) {
        if (CD->isCopyConstructor()) K = "copy_ctor";
        else if (CD->isMoveConstructor()) K = "move_ctor";
      } else if (MD->isCopyAssignmentOperator()) K = "copy_assign";
      else if (MD->isMoveAssignmentOperator()) K = "move_assign";
      if (K) {
        const char *St = MD->isDeleted() ? "deleted"
                         : MD->isDefaulted() ? "defaulted"
                         : MD->isUserProvided() ? "user" : "implicit";
        json::Object SO;
        SO["status"] = St;
        SO["fn"] = idOf(MD);
        Sp[K] = std::move(SO);
      }
    }
    C["special"] = std::move(Sp);
    OS << json::Value(std::move(C)) << "\n";
  }

  // ---------------------------------------------------------------- visitor
  bool VisitFunctionDecl(FunctionDecl *FD) {
    if (FD->doesThisDeclarationHaveABody() && !FD->isDependentContext())
      emitFunction(FD);
    return true;
  }
  bool VisitCXXMethodDecl(CXXMethodDecl *MD) {
    // declaration-only members generated by MAKE_MOCKn (trompeloeil_tag_<name>, trompeloeil_self_<name>)
    // are only ever named in unevaluated operands; give them a stub so that routing rules can see them
    if (!MD->isDependentContext() && MD->getIdentifier() && MD->getName().startswith("trompeloeil_"))
      idOf(MD);
    return true;
  }
  bool VisitLambdaExpr(LambdaExpr *LE) {
    if (CXXMethodDecl *MD = LE->getCallOperator())
      if (!MD->isDependentContext() && MD->doesThisDeclarationHaveABody())
        emitFunction(MD);
    return true;
  }

  void finish() {
    // stubs for referenced functions without bodies
    for (size_t I = 0; I < FnById.size(); ++I) {
      if (Emitted.count((int)I)) continue;
      const FunctionDecl *FD = FnById[I];
      // late instantiations may have acquired a body meanwhile
      const FunctionDecl *Def = nullptr;
      if (FD->hasBody(Def) && Def && !Def->isDependentContext()) {
        emitFunction(Def);
        if (Emitted.count((int)I)) continue;
      }
      if (!Stubbed.insert((int)I).second) continue;
      json::Object F;
      F["k"] = "fnstub";
      F["id"] = (int64_t)I;
      F["q"] = fnName(FD);
      F["loc"] = locStr(FD->getLocation());
      F["noreturn"] = FD->isNoReturn();
      if (VirtualNoReturn.count(FD->getCanonicalDecl())) F["virtual_noreturn_declared"] = true;
      F["deleted"] = FD->isDeleted();
      F["trivial"] = FD->isTrivial();
      F["pure"] = FD->isPure();
      F["ret"] = typeStr(FD->getReturnType());
      {
        json::Array Ps;
        for (auto *P : FD->parameters()) {
          json::Object PO;
          PO["n"] = P->getNameAsString();
          PO["t"] = typeStr(P->getType());
          Ps.push_back(std::move(PO));
        }
        F["params"] = std::move(Ps);
      }
      if (auto *MD = dyn_cast<CXXMethodDecl>(FD)) {
        F["virtual"] = MD->isVirtual();
        F["cls"] = clsIdOf(MD->getParent());
        F["clsq"] = clsName(MD->getParent());
        json::Array Ov;
        for (const CXXMethodDecl *O : MD->overridden_methods()) Ov.push_back(idOf(O));
        F["overrides"] = std::move(Ov);
        F["kind"] = isa<CXXDestructorDecl>(MD) ? "dtor" : isa<CXXConstructorDecl>(MD) ? "ctor" : "method";
      } else
        F["kind"] = "function";
      OS << json::Value(std::move(F)) << "\n";
    }
    for (size_t I = 0; I < ClsById.size(); ++I) emitClass((int)I);
  }
};

// A virtual member declared [[noreturn]] says nothing about its overriders (trompeloeil declares
// call_matcher_base::report_mismatch [[noreturn]] although the only overrider returns).  clang's CFG
// builder would cut every path after such a call; drop the attribute before building CFGs so that the
// caller's loop structure survives, and remember that it was declared.
struct PrePass : public RecursiveASTVisitor<PrePass> {
  std::set<const FunctionDecl *> Dropped;
  bool shouldVisitTemplateInstantiations() const { return true; }
  bool shouldVisitImplicitCode() const { return false; }
  bool VisitCXXMethodDecl(CXXMethodDecl *MD) {
    if (MD->isVirtual() && MD->hasAttr<CXX11NoReturnAttr>()) {
      MD->dropAttr<CXX11NoReturnAttr>();
      Dropped.insert(MD->getCanonicalDecl());
    }
    return true;
  }
};

class Consumer : public ASTConsumer {
  std::string Out;

public:
  explicit Consumer(std::string O) : Out(std::move(O)) {}
  void HandleTranslationUnit(ASTContext &Ctx) override {
    if (Ctx.getDiagnostics().hasErrorOccurred()) {
      llvm::errs() << "tvfacts: translation unit has errors, no facts written\n";
      return;
    }
    std::error_code EC;
    llvm::raw_fd_ostream OS(Out, EC);
    if (EC) {
      llvm::errs() << "tvfacts: cannot open " << Out << ": " << EC.message() << "\n";
      return;
    }
    PrePass PPass;
    PPass.TraverseDecl(Ctx.getTranslationUnitDecl());
    Extractor X(Ctx, OS);
    X.VirtualNoReturn = PPass.Dropped;
    X.TraverseDecl(Ctx.getTranslationUnitDecl());
    // functions whose ids were handed out during traversal may pull in more
    size_t Before;
    do {
      Before = X.FnById.size();
      X.finish();
    } while (X.FnById.size() != Before);
    json::Object End;
    End["k"] = "end";
    End["functions"] = (int64_t)X.Emitted.size();
    OS << json::Value(std::move(End)) << "\n";
  }
};

class Action : public PluginASTAction {
  std::string Out = "tvfacts.jsonl";

protected:
  std::unique_ptr<ASTConsumer> CreateASTConsumer(CompilerInstance &, llvm::StringRef) override {
    return std::make_unique<Consumer>(Out);
  }
  bool ParseArgs(const CompilerInstance &, const std::vector<std::string> &Args) override {
    for (auto &A : Args)
      if (A.rfind("out=", 0) == 0) Out = A.substr(4);
    return true;
  }
};

} // namespace

static FrontendPluginRegistry::Add<Action> X("tvfacts", "dump CFG facts as JSON lines");
