"""C19 - misuse fails to compile with the documented message; legal forms compile;
macro hygiene under TROMPELOEIL_LONG_MACROS.

Oracle: the compiler's accept/reject verdict and diagnostic text (front end only,
-fsyntax-only; nothing is linked or run)."""
import glob
import os
import re
import subprocess

from engine import facts, cc
from engine.facts import AnalysisBroken, INCLUDE, REPO, VERIF, CACHE
from witness import c19gen

GEN = facts.gen_dir()


def configs(tier):
    if tier == "quick":
        return [("clang++", "c++14"), ("clang++", "c++20")]
    return [(c, s) for c in ("clang++", "g++") for s in ("c++14", "c++17", "c++20")]


def rule_of(path, key):
    rx = re.compile(r"^// " + key + r": (.*)$")
    for line in open(path, encoding="utf-8", errors="replace"):
        m = rx.match(line.rstrip("\n"))
        if m:
            return m.group(1)
    return None


# --------------------------------------------------------------------------- C19.a
def shipped(ctx):
    files = sorted(glob.glob(os.path.join(REPO, "compilation_errors", "*.cpp")))
    ctx.floor("C19.a shipped negative programs", len(files), 60)
    jobs = []
    meta = []
    skipped = 0
    for comp, std in configs(ctx.tier):
        ident = " %s -std=%s" % (comp, std)
        for f in files:
            exc = rule_of(f, "exception")
            if exc and cc.grep(exc, ident, extended=False):
                skipped += 1
                continue
            pas = rule_of(f, "pass")
            if pas is None:
                ctx.ob("C19.a", os.path.basename(f), None, detail="no '// pass:' rule in " + f)
                continue
            jobs.append((cc.syntax_cmd(comp, std, f), None))
            meta.append((comp, std, f, pas))
    res = cc.run_many(jobs)
    for (comp, std, f, pas), (rc, out) in zip(meta, res):
        base = os.path.basename(f)
        ok = rc != 0 and cc.grep(pas, out, extended=True)
        detail = ""
        if rc == 0:
            detail = "%s -std=%s accepts the program; documented diagnostic: %s" % (comp, std, pas)
        elif not ok:
            detail = "%s -std=%s rejects it, but not with the documented diagnostic /%s/" % (comp, std, pas)
        ctx.ob("C19.a", "compilation_errors/" + base, ok, pattern="compilation_errors/" + base,
               unit="%s@%s" % (comp, std), detail=detail,
               witness=None if ok else {"compiler": comp, "std": std, "output_tail": out[-1500:]})
    ctx.extra["shipped_programs"] = len(files)
    ctx.extra["shipped_compilations"] = len(jobs)
    ctx.extra["shipped_skipped_by_exception_rule"] = skipped
    ctx.sample({"rule": "C19.a", "program": "compilation_errors/multiple_limits.cpp",
                "must_fail_with": rule_of(os.path.join(REPO, "compilation_errors/multiple_limits.cpp"), "pass")})


# --------------------------------------------------------------------------- C19.b / C19.c
def write_gen(name, text):
    os.makedirs(GEN, exist_ok=True)
    p = os.path.join(GEN, name)
    with open(p, "w") as fh:
        fh.write(text)
    return p


def chunks(xs, n):
    k = max(1, (len(xs) + n - 1) // n)
    return [xs[i:i + k] for i in range(0, len(xs), k)]


def build_programs(pos_len, neg_len, tagp):
    """pos_len / neg_len: per signature kind, the maximum length of (base) chains."""
    pos_progs, neg_progs = [], []
    for sig in ("V", "I", "R"):
        cases = [("REQUIRE_CALL", c) for c in c19gen.legal_chains(sig, 4) if len(c) <= pos_len[sig]]
        cases += c19gen.extra_positive(sig)
        for i, part in enumerate(chunks(cases, 6)):
            p = c19gen.Program("%spos_%s_%d" % (tagp, sig, i))
            for macro, chain in part:
                p.add(macro, chain, sig)
            pos_progs.append(p)
    for sig in ("V", "I", "R"):
        cases = []
        seen = set()
        for base in c19gen.legal_chains(sig, 4):
            if len(base) > neg_len[sig]:
                continue
            for chain, rx, what in c19gen.illegal_insertions(base, sig):
                key = (chain, rx)
                if key in seen:
                    continue
                seen.add(key)
                cases.append(("REQUIRE_CALL", chain, rx, what))
        cases += c19gen.forbid_negatives(sig)
        for i, part in enumerate(chunks(cases, 8)):
            p = c19gen.Program("%sneg_%s_%d" % (tagp, sig, i))
            for macro, chain, rx, what in part:
                p.add(macro, chain, sig, expect=rx, what=what)
            neg_progs.append(p)
    pa = c19gen.Program(tagp + "neg_arity")
    c19gen.arity_negatives(pa)
    neg_progs.append(pa)
    return pos_progs, neg_progs


def generated(ctx):
    quick = ctx.tier == "quick"
    if quick:
        plans = [(build_programs({"V": 3, "I": 4, "R": 3}, {"V": 2, "I": 2, "R": 2}, "q"),
                  [("clang++", "c++17")])]
        floors = (700, 600)
    else:
        plans = [(build_programs({"V": 5, "I": 5, "R": 5}, {"V": 3, "I": 3, "R": 3}, "t"), configs(ctx.tier)),
                 (build_programs({"V": 0, "I": 0, "R": 0}, {"V": 5, "I": 5, "R": 5}, "f"),
                  [("clang++", "c++17")])]
        floors = (2400, 30000)
    n_pos = sum(len(p.cases) for (pp, nn), _ in plans for p in pp)
    n_neg = sum(len(p.cases) for (pp, nn), _ in plans for p in nn)
    ctx.floor("C19.c generated legal clause chains", n_pos, floors[0])
    ctx.floor("C19.b generated illegal clause chains", n_neg, floors[1])

    jobs = []
    meta = []
    for (pos_progs, neg_progs), cfgs in plans:
        for p in pos_progs + neg_progs:
            path = write_gen("c19_%s.cpp" % p.tag, p.source())
            for comp, std in cfgs:
                jobs.append((cc.syntax_cmd(comp, std, path), None))
                meta.append((comp, std, p, path))
    res = cc.run_many(jobs)
    for (comp, std, p, path), (rc, out) in zip(meta, res):
        unit = "%s@%s" % (comp, std)
        blocks = c19gen.diag_blocks(out)
        by_line = c19gen.attribute(blocks, os.path.basename(path))
        positive = "pos_" in p.tag
        if "no such file" in out.lower() or "no input files" in out or (rc not in (0, 1) and not blocks):
            ctx.ob("C19.b" if not positive else "C19.c", p.tag, None,
                   detail="compiler failed abnormally (rc=%d) on %s: %s" % (rc, path, out[-300:]))
            continue
        for ln, case in p.cases.items():
            name = "%s %s%s" % (case["macro"], case["sig"] + ":" if case["sig"] != "-" else "",
                                " ".join(case["chain"]) or case["what"])
            if positive:
                errs = by_line.get(ln, [])
                ok = not errs
                ctx.ob("C19.c", "legal: " + name, ok, pattern="verif:witness/c19gen.py", unit=unit,
                       detail="" if ok else "legal clause chain rejected by %s: %s"
                       % (unit, case["text"]),
                       witness=None if ok else {"source_line": case["text"], "diagnostic": errs[0][-1200:]})
            else:
                errs = by_line.get(ln, [])
                rx = re.compile(case["expect"])
                hit = any(rx.search(e) for e in errs)
                detail = ""
                if not errs:
                    detail = "illegal chain (%s) accepted by %s: %s" % (case["what"], unit, case["text"])
                elif not hit:
                    detail = ("illegal chain (%s) rejected by %s without the documented diagnostic /%s/: %s"
                              % (case["what"], unit, case["expect"], case["text"]))
                ctx.ob("C19.b", "illegal: " + name + " [" + case["what"] + "]", hit,
                       pattern="verif:witness/c19gen.py", unit=unit, detail=detail,
                       witness=None if hit else {"source_line": case["text"],
                                                 "diagnostics": [e[-600:] for e in errs[:3]]})
        if positive and rc != 0:
            stray = [b for b in blocks if not re.search(re.escape(os.path.basename(path)) + r":\d+", "\n".join(b))]
            if stray:
                ctx.ob("C19.c", "legal: program " + p.tag, False, unit=unit,
                       detail="positive program rejected: " + "\n".join(stray[0])[-600:])
    ctx.extra["generated_positive_cases"] = n_pos
    ctx.extra["generated_negative_cases"] = n_neg
    ctx.extra["generated_compilations"] = len(jobs)
    (pos_progs, neg_progs), _ = plans[0]
    ex = neg_progs[0].cases[min(neg_progs[0].cases)]
    ctx.sample({"rule": "C19.b", "what": ex["what"], "source_line": ex["text"], "must_fail_with": ex["expect"]})
    ex = pos_progs[-1].cases[max(pos_progs[-1].cases)]
    ctx.sample({"rule": "C19.c", "source_line": ex["text"], "must": "compile"})


# --------------------------------------------------------------------------- C19.d
HEADERS = ["trompeloeil.hpp", "trompeloeil/mock.hpp", "trompeloeil/sequence.hpp",
           "trompeloeil/lifetime.hpp", "trompeloeil/matcher.hpp", "trompeloeil/stream_tracer.hpp",
           "trompeloeil/matcher/any.hpp", "trompeloeil/matcher/compare.hpp",
           "trompeloeil/matcher/deref.hpp", "trompeloeil/matcher/member_is.hpp",
           "trompeloeil/matcher/not.hpp", "trompeloeil/matcher/range.hpp",
           "trompeloeil/matcher/re.hpp", "trompeloeil/matcher/set_predicate.hpp"]
CORO_HEADER = "trompeloeil/coro.hpp"


def defined_macros(std, header, long_macros):
    """(name, body, file) for every #define whose directive lives under /repo/include."""
    src = ("#define TROMPELOEIL_LONG_MACROS\n" if long_macros else "") + "#include <%s>\n" % header
    r = subprocess.run(["clang++", "-std=" + std, "-I" + INCLUDE, "-E", "-dD", "-w", "-x", "c++", "-"],
                       input=src, capture_output=True, text=True)
    if r.returncode != 0:
        raise AnalysisBroken("preprocessing <%s> at %s failed: %s" % (header, std, r.stderr[-500:]))
    cur = ""
    out = []
    for line in r.stdout.split("\n"):
        if line.startswith("# "):
            m = re.match(r'# \d+ "([^"]*)"', line)
            if m:
                cur = m.group(1)
        elif line.startswith("#define "):
            if cur.startswith(INCLUDE + "/") or cur.startswith(INCLUDE):
                m = re.match(r"#define\s+([A-Za-z_][A-Za-z0-9_]*)(\([^)]*\))?\s*(.*)$", line)
                if m:
                    out.append((m.group(1), m.group(3).strip(), os.path.relpath(cur, REPO)))
    return out


def hygiene(ctx):
    from concurrent.futures import ThreadPoolExecutor
    stds = ["c++14", "c++20"] if ctx.tier == "quick" else ["c++14", "c++17", "c++20"]
    total = 0
    work = []
    for std in stds:
        for h in list(HEADERS) + ([CORO_HEADER] if std == "c++20" else []):
            if not os.path.exists(os.path.join(INCLUDE, h)):
                ctx.ob("C19.d", h, None, detail="header vanished: " + h)
                continue
            work.append((std, h))
    with ThreadPoolExecutor(max_workers=cc.JOBS) as ex:
        results = list(ex.map(lambda w: defined_macros(w[0], w[1], True), work))
    for (std, h), macros in zip(work, results):
        if True:
            total += len(macros)
            leaks = sorted(set((n, f) for n, b, f in macros if not n.startswith("TROMPELOEIL_")))
            # one obligation per header; each leaking macro is its own construct so that a known
            # finding for one macro never hides another
            ctx.ob("C19.d", "macros of <%s> under TROMPELOEIL_LONG_MACROS" % h, True,
                   pattern="include/" + h, unit="clang++@" + std)
            for n, f in leaks:
                ctx.ob("C19.d", "macro " + n, False, pattern=f, unit="clang++@" + std,
                       detail="with TROMPELOEIL_LONG_MACROS defined, <%s> still defines the "
                              "unprefixed macro %s (in %s)" % (h, n, f),
                       witness={"header": h, "std": std, "macro": n, "defined_in": f})
    # short names are aliases of their TROMPELOEIL_ twins
    macros = defined_macros("c++20", "trompeloeil.hpp", False) + defined_macros("c++20", CORO_HEADER, False)
    short = [(n, b, f) for n, b, f in macros if not n.startswith("TROMPELOEIL_")]
    ctx.floor("C19.d short macro aliases", len(set(n for n, b, f in short)), 60)
    for n, b, f in sorted(set(short)):
        ok = b == "TROMPELOEIL_" + n
        ctx.ob("C19.d.alias", "macro " + n, ok, pattern=f,
               detail="" if ok else "short macro %s expands to '%s', not to TROMPELOEIL_%s" % (n, b, n))
    ctx.extra["macro_definitions_inspected"] = total
    ctx.sample({"rule": "C19.d", "check": "every #define directive located under include/ while "
                "TROMPELOEIL_LONG_MACROS is defined must name a TROMPELOEIL_-prefixed macro",
                "headers": len(HEADERS) + 1})


# --------------------------------------------------------------------------- C19.e (informational)
def census(ctx):
    msgs = set()
    for f in glob.glob(os.path.join(INCLUDE, "trompeloeil", "**", "*.hpp"), recursive=True):
        text = open(f, encoding="utf-8", errors="replace").read()
        for m in re.finditer(r'static_assert\s*\((?:[^;"]|\n)*?"((?:[^"\\]|\\.)*)"', text):
            msgs.add(m.group(1))
    ctx.extra["static_assert_messages_in_headers"] = len(msgs)


def run(ctx):
    ctx.explanation = (
        "Compile-fail / compile-pass witnesses decided by the compiler front end (-fsyntax-only): "
        "C19.a the repository's own negative programs must be rejected with their documented "
        "diagnostic; C19.b a generated matrix inserts each illegal ingredient at every position of "
        "every legal clause chain (each case in its own mock type, diagnostics attributed by line) and "
        "requires the documented diagnostic; C19.c every permutation of every legal clause subset must "
        "compile; C19.d every #define directive located in the headers while TROMPELOEIL_LONG_MACROS "
        "is defined must be TROMPELOEIL_-prefixed (from clang -E -dD line markers), and each short "
        "macro must be an alias of its prefixed twin.")
    ctx.assumptions = ["clang 14 / g++ 12 front ends and libstdc++ 12 as installed",
                       "quick tier: clang++ at C++14 and C++20; thorough: clang++ and g++ at C++14/17/20"]
    ctx.not_decided = []
    shipped(ctx)
    hygiene(ctx)
    generated(ctx)
    census(ctx)
    # coroutine clauses: legal orders on coroutine functions, misuse on coroutine functions, and every coroutine
    # clause on an ordinary function in every position relative to the ordinary clauses (C20.e's matrix)
    from rules import C20
    C20.c20e(ctx)
    ctx.extra["exhaustive_over"] = ("clause orders: all permutations of all subsets of {WITH, SIDE_EFFECT, "
                                    "TIMES|RT_TIMES, IN_SEQUENCE} + finisher, for void/value/reference signatures")
