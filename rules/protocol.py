"""The sequence-step / count / action protocol of the two consumers of a sequence step:
call_matcher::run_actions (mock call) and lifetime_monitor::notify (monitored destruction).

One interprocedural automaton; the properties C01, C03, C05, C06, C07, C08 each read the clauses
they need from its verdicts (rule ids say which)."""
from engine import cfg, lib
from engine.auto import Explorer, fmt_trace
from engine.facts import erase, short_loc
from engine.lib import A, qe

CONDS = {
    A["is_forbidden"]: "is_forbidden",
    A["can_be_called"]: "can_be_called",
    A["is_satisfied"]: "is_satisfied",
    A["is_saturated"]: "is_saturated",
}


def make_classify(tu):
    def classify(fn, ev, env):
        k = ev["e"]
        if k == "assign":
            lhs = lib.strip_casts(ev.get("lhs"))
            if isinstance(lhs, list) and lhs[:1] == ["member"]:
                f = erase(lhs[1])
                if lib.is_set_reported(tu, ev):
                    return ("sym", "set_reported")
                if f == lib.died_field(tu):
                    return ("sym", "set_died")
            return None
        if k == "decl" and "unique_lock<" in ev.get("type", ""):
            return ("sym", "lock")
        if k != "call":
            return None
        n = qe(ev)
        if n in CONDS:
            return ("skip",)     # value enters through the edge symbols
        if n == A["validate"]:
            sev = lib.severity_of(ev["args"][0], env) if ev.get("args") else "?"
            if env is None:
                return ("sym", "validate")
            if sev == "fatal":
                return ("term", "validate_fatal")
            return ("sym", "validate_" + sev)
        if n == A["increment_call"]:
            return ("sym", "increment")
        if n == A["retire_predecessors"]:
            return ("sym", "retire_pred")
        if n == A["retire"]:
            return ("sym", "retire")
        if n == A["unlink"]:
            return ("sym", "unlink")
        if n == A["push_back"] or n == A["push_front"]:
            return ("sym", "push_sat" if n == A["push_back"] else "push_front")
        if n == A["report_forbidden_call"]:
            return ("term", "report_forbidden")
        if n == A["send_ok_report"]:
            return ("sym", "ok")
        if n == lib.side_effect_action(tu):
            return ("sym", "action")
        if n == A["set_limits"]:
            return ("sym", "set_limits")
        if n == "std::atomic::operator=" or n.startswith("std::atomic") and ev.get("op") == "=":
            r = lib.strip_casts(ev.get("recv"))
            if isinstance(r, list) and r[:1] == ["member"] and erase(r[1]) == lib.died_field(tu):
                return ("sym", "set_died")
        if n in (A["send_report"], A["send"]):
            sev = lib.severity_of(ev["args"][0], env) if ev.get("args") else "?"
            if env is None:
                return ("sym", "send")
            return ("term", "send_fatal") if sev == "fatal" else ("sym", "send_" + sev)
        if lib.user_callback(tu, ev):
            return ("skip",)
        return None
    return classify


def edge(fn, cond):
    n = lib.tree_name(cond)
    if n in CONDS:
        return CONDS[n]
    return None


MUT = ("increment", "retire_pred", "retire", "unlink", "push_sat", "push_front", "set_limits")

# state: dict-like tuple
FIELDS = ("forb", "cbc", "inc", "rp", "sat", "retire", "unlink", "push", "acted", "ok", "died", "satf", "flags")
INIT = (None, None, 0, False, None, False, False, False, False, 0, False, None, frozenset())


def _set(q, **kw):
    d = dict(zip(FIELDS, q))
    d.update(kw)
    return tuple(d[f] for f in FIELDS)


def _flag(q, msg):
    d = dict(zip(FIELDS, q))
    return _set(q, flags=d["flags"] | {msg})


def delta(q, sym):
    d = dict(zip(FIELDS, q))
    if isinstance(sym, tuple) and sym[0] == "cond":
        name, val = sym[1], sym[2]
        if name == "is_forbidden":
            return _set(q, forb=val)
        if name == "can_be_called":
            return _set(q, cbc=val)
        if name == "is_saturated":
            if d["inc"] == 0:
                # the limit tests that decide what happens AFTER this call must see the count including it
                q = _flag(q, "C06.c: the saturation test is evaluated before the call has been counted (it sees "
                             "the count without this call, so an expectation that saturates now is not retired)")
            return _set(q, sat=val)
        if name == "is_satisfied":
            return _set(q, satf=val)
        return None
    mutated = d["inc"] > 0 or d["rp"] or d["retire"] or d["unlink"] or d["push"]
    if sym in ("validate_fatal", "validate_nonfatal", "validate_?", "validate"):
        if d["cbc"] is not False:
            q = _flag(q, "C05.d.1: sequence validation (which reports unless the expectation is first in line) "
                         "is reached although can_be_called() was not false")
        if mutated:
            q = _flag(q, "C05.d.2: sequence validation happens after the expectation's state was already changed")
        return q
    if sym == "report_forbidden":
        if d["forb"] is not True:
            q = _flag(q, "C07.b: forbidden-call report outside the is_forbidden() branch")
        if mutated or d["acted"] or d["ok"]:
            q = _flag(q, "C07.b: forbidden call is reported after state was changed / an action ran / OK was sent")
        return q
    if sym == "increment":
        if d["forb"] is None:
            q = _flag(q, "C07.b: the call is counted without the forbidden check having been evaluated")
        if d["forb"] is True:
            q = _flag(q, "C07.b: a forbidden call is counted")
        if d["cbc"] is None:
            q = _flag(q, "C05.d.2: the call is counted before the sequence constraints were evaluated")
        if d["acted"]:
            q = _flag(q, "C08.b: a side effect runs before the call is counted")
        return _set(q, inc=min(d["inc"] + 1, 2))
    if sym == "retire_pred":
        # (whether the count is incremented just before or just after is immaterial: both are unobservable steps of
        # one critical section; what matters is checked at the path's end - retired only together with counting)
        return _set(q, rp=True)
    if sym == "retire":
        if d["sat"] is not True:
            q = _flag(q, "C06.c: the expectation leaves its sequences although it is not saturated")
        if d["acted"]:
            q = _flag(q, "C06.c: a saturated expectation leaves its sequences only after user code (a side effect) has "
                         "run: when that code throws it stays registered")
        return _set(q, retire=True)
    if sym == "unlink":
        if d["sat"] is not True:
            q = _flag(q, "C03.d: the expectation leaves the active list although it is not saturated")
        if d["push"]:
            q = _flag(q, "C03.d: appended to the saturated list before being unlinked from the active list")
        if d["acted"]:
            q = _flag(q, "C03.d: a saturated expectation leaves the active list only after user code (a side effect) "
                         "has run: when that code throws it stays a candidate")
        return _set(q, unlink=True)
    if sym == "push_sat":
        if d["sat"] is not True:
            q = _flag(q, "C03.d: appended to the saturated list although it is not saturated")
        if not d["unlink"]:
            q = _flag(q, "C03.d: appended to the saturated list while still linked in the active list")
        return _set(q, push=True)
    if sym == "push_front":
        return _flag(q, "C03.d: a saturated expectation is prepended, not appended")
    if sym == "action":
        if d["inc"] == 0:
            q = _flag(q, "C08.b: a side effect runs before the call is counted")
        return _set(q, acted=True)
    if sym == "ok":
        return _set(q, ok=min(d["ok"] + 1, 2))
    if sym == "set_died":
        return _set(q, died=True)
    if sym == "set_limits":
        return _flag(q, "C03.b: call limits are modified while handling a call")
    return None


def exit_check(q, kind):
    """obligations on a normally exiting (accepted) path; kind = 'call' | 'death'"""
    d = dict(zip(FIELDS, q))
    out = list(d["flags"])
    if d["inc"] != 1:
        if kind == "call":
            out.append("C03.d: an accepted call is counted %s" % ("0 times" if d["inc"] == 0 else "more than once"))
        else:
            out.append("C05.d.4: a monitored destruction must count as having happened exactly once, also when it "
                       "is out of sequence; on this path it is counted %s" % ("0 times" if d["inc"] == 0 else "more than once"))
    if d["rp"] and d["inc"] == 0:
        out.append("C05.d.3: predecessors are retired although the call was not counted")
    if d["inc"] >= 1 and not d["rp"] and not (kind == "death" and d["satf"] is False):
        out.append("C05.d.3: a matched step does not retire its predecessors on this path "
                   "(something registered before it could match again)")
    if kind == "death" and d["inc"] >= 1 and not d["rp"] and d["satf"] is False:
        pass  # guarded by is_satisfied(): monitors have fixed limits (1,1), see protocol.monitor_limits_fixed
    if d["sat"] is True:
        if not d["retire"]:
            out.append("C06.c: a saturated expectation stays registered in its sequences")
        if kind == "call" and not (d["unlink"] and d["push"]):
            out.append("C03.d: a saturated expectation stays in the active list / is not moved to the saturated list")
    if d["sat"] is None and d["inc"] >= 1:
        if kind == "call":
            out.append("C03.d: saturation is not checked after counting the call")
        else:
            out.append("C06.c: a monitor whose object has died (satisfied and saturated) never leaves its "
                       "sequences: saturation is not checked after counting the destruction")
    if kind == "call" and d["forb"] is True:
        out.append("C07.b: a forbidden call is accepted (the forbidden branch continues)")
    if kind == "death" and not d["died"]:
        out.append("C13.d: the monitor is not marked as died")
    return out


def analyse(tu, fn, kind, env=None):
    """-> (violations: list of (message, trace)), stats"""
    ex = Explorer(tu, make_classify(tu), edge=edge, delta=delta)
    exits, terms = ex.explore(fn, INIT, env or {})
    viol = {}
    for q, tr in exits.items():
        for m in exit_check(q, kind):
            viol.setdefault(m, tr)
    for (q, last), tr in terms.items():
        d = dict(zip(FIELDS, q))
        for m in d["flags"]:
            viol.setdefault(m, tr)
        if last in ("validate_fatal", "send_fatal", "report_forbidden"):
            if d["inc"] or d["rp"] or d["retire"] or d["unlink"] or d["push"] or d["acted"]:
                viol.setdefault("C01.b: a call that ends in a fatal report has already changed a count, a list "
                                "or run an action", tr)
    return [(m, tr) for m, tr in viol.items()], ex


def monitor_limits_fixed(tu):
    """WHO: nobody calls set_limits on a lifetime monitor's handler (so its limits stay (1,1))."""
    bad = []
    for f in tu.fns.values():
        if not f.has_body or not f.is_lib:
            continue
        for b, e in f.events():
            if e["e"] == "call" and qe(e) == A["set_limits"]:
                r = str(e.get("recv"))
                if "lifetime_monitor" in r:
                    bad.append((f, e))
    return bad


def report(ctx, tu, prefix_filter, unit=None):
    """Evaluate both consumers; record, under each rule id whose prefix passes prefix_filter,
    one obligation per (rule clause, consumer)."""
    rules_seen = {}
    consumers = [(A["run_actions"], "call", 5), (A["notify"], "death", 1)]
    # the automaton reads the protocol off calls of these functions; when one of them no longer exists under its
    # name (renamed / merged away) nothing can be concluded from its absence on a path
    need = [A["is_forbidden"], A["can_be_called"], A["is_saturated"], A["increment_call"], A["retire_predecessors"],
            A["retire"], A["validate"], lib.side_effect_action(tu)]
    missing = [n for n in need if not tu.find(n, body=False)]
    if missing and tu.find(A["run_actions"]):
        for rid in ALL_RULES:
            if prefix_filter(rid):
                ctx.ob(rid, "protocol anchors", None, unit=tu.name,
                       detail="the protocol step(s) %s are not found under their names in unit %s" % (", ".join(missing), tu.name))
        return rules_seen
    for qname, kind, floor in consumers:
        fns = tu.find(qname)
        if len(fns) < floor:
            if tu.name.startswith("core") or tu.name.startswith("repo_ct"):
                ctx.ob("protocol", qname, None, unit=tu.name,
                       detail="consumer %s: %d instantiation(s) in unit %s, need %d" % (qname, len(fns), tu.name, floor))
            continue
        for fn in fns:
            viol, ex = analyse(tu, fn, kind)
            got = {}
            for m, tr in viol:
                rid = m.split(":", 1)[0]
                got.setdefault(rid, (m, tr))
            for rid in ALL_RULES:
                if not prefix_filter(rid):
                    continue
                if kind == "death" and rid in ("C03.d", "C07.b", "C08.b", "C01.b"):
                    continue
                if kind == "call" and rid in ("C13.d", "C05.d.4"):
                    continue
                if rid in got:
                    m, tr = got[rid]
                    ctx.ob(rid, qname, False, pattern=fn.pat, unit=tu.name, inst=fn.q,
                           detail=m.split(":", 1)[1].strip(),
                           witness={"entry": fn.q, "path": fmt_trace(tr)})
                else:
                    ctx.ob(rid, qname, True, pattern=fn.pat, unit=tu.name, inst=fn.q)
    return rules_seen


ALL_RULES = ["C01.b", "C03.b", "C03.d", "C05.d.1", "C05.d.2", "C05.d.3", "C05.d.4", "C06.c", "C07.b", "C08.b", "C13.d"]
