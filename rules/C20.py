"""C20 - mocked coroutines: matched at the call, then yield in order, then return/throw."""
import itertools
import os
import re

from engine import facts, cc, cfg, lib
from engine.facts import erase, short_loc, CACHE, VERIF
from engine.lib import A, qe

NS = "trompeloeil::"
HANDLER = NS + "co_return_handler_t::call"


def c20a(ctx, tu):
    """coroutine signatures go through the very same dispatch / run_actions patterns"""
    pats = {}
    coro = 0
    for fn in tu.find(A["dispatch"]):
        pats.setdefault(fn.pat, []).append(fn)
        if "task<" in fn.q or "generator<" in fn.q:
            coro += 1
    ok = len(pats) == 1 and coro >= 4
    ctx.ob("C20.a", A["dispatch"], ok, unit=tu.name,
           detail="" if ok else "coroutine-returning mock functions must be dispatched by the one generic dispatch "
           "function (patterns: %s, coroutine instantiations: %d)" % (sorted(pats), coro))
    pats = set(fn.pat for fn in tu.find(A["run_actions"]))
    ctx.ob("C20.a", A["run_actions"], len(pats) == 1, unit=tu.name,
           detail="" if len(pats) == 1 else "run_actions has more than one source pattern: %s" % sorted(pats))
    return coro


def subst(t, sub):
    """replace ['param', i, name] leaves of an expression tree by the caller's argument trees"""
    if isinstance(t, list):
        if len(t) >= 2 and t[0] == "param" and isinstance(t[1], int) and t[1] in sub:
            return sub[t[1]]
        return [subst(x, sub) for x in t]
    if isinstance(t, dict):
        return {k: subst(v, sub) for k, v in t.items()}
    return t


def subst_event(e, sub):
    if not sub:
        return e
    return {k: (subst(v, sub) if k in ("x", "args", "recv", "init") else v) for k, v in e.items()}


# coroutine types of corpus/coro.cpp whose promise takes co_yield (overloaded and templated yield_value included)
CORPUS_YIELDING = ("cor::generator<", "cor::gen2<")


def handler_body(tu, entry):
    """The function whose body is the handler coroutine: `call` itself, or - when `call` does nothing but return
    the result of one library coroutine - that coroutine, with its parameters bound to the forwarded arguments.
    Returns (fn, {param index: argument tree}) or (None, None)."""
    sub = {}
    fn = entry
    for _ in range(3):
        if fn.rec.get("coro"):
            return fn, sub
        rets = [e for b, e in fn.events() if e["e"] == "return"]
        others = [e for b, e in fn.events() if e["e"] in ("throw", "assign", "incdec", "new", "delete")]
        if len(rets) != 1 or others:
            return None, None
        x = rets[0].get("x")
        while isinstance(x, list) and x and x[0] in ("ctor",) and len(x) > 3 and len(x[3]) == 1:
            x = x[3][0]          # elidable copy of the returned coroutine object
        if not (isinstance(x, list) and x and x[0] in ("call", "mcall")):
            return None, None
        callee = tu.fns.get(x[1])
        if callee is None or not callee.has_body or not callee.is_lib:
            return None, None
        args = x[3] if x[0] == "call" else x[4]
        sub = {i: subst(a, sub) for i, a in enumerate(args)}
        fn = callee
    return None, None


def c20b(ctx, tu):
    """handler body = for each element of the yield list, in list order: one co_yield of that element's
    expression; then exactly one co_return of the return expression; no other explicit co_await."""
    n = 0
    for entry in tu.find(HANDLER):
        fn, sub = handler_body(tu, entry)
        if fn is None:
            ctx.ob("C20.b", HANDLER, False, pattern=entry.pat, unit=tu.name, inst=entry.q,
                   detail="the coroutine return handler is neither a coroutine itself nor a plain forward to one: "
                   "clause exceptions would surface at the call")
            continue
        n += 1
        # the handler's two members by role: the shared list of yield expressions (a smart pointer) and the
        # callable that produces the result
        LISTF = FUNCF = None
        for c in tu.cls_by_qe.get(NS + "co_return_handler_t", []):
            fl = c.get("fields", ())
            lf = [erase(f["q"]) for f in fl if "shared_ptr" in f["t"]]
            ff = [erase(f["q"]) for f in fl if "shared_ptr" not in f["t"]]
            if len(lf) == 1 and len(ff) == 1:
                LISTF, FUNCF = lf[0], ff[0]
                break
        if LISTF is None:
            LISTF, FUNCF = NS + "co_return_handler_t::yields", NS + "co_return_handler_t::func"
        evs = [(b["id"], subst_event(e, sub)) for b, e in fn.events()]
        yields = [(bid, e) for bid, e in evs if e["e"] == "co_yield"]
        # the compiler-generated fall-through `co_return;` (void promises) sits at the function's own location
        rets = [(bid, e) for bid, e in evs if e["e"] == "co_return" and not e.get("implicit")
                and not (e.get("x") is None and e.get("loc") == fn.rec.get("loc"))]
        awaits = [(bid, e) for bid, e in evs if e["e"] == "co_await" and not e.get("implicit")]
        bad = None
        if len(rets) != 1:
            bad = "the handler must end in exactly one co_return (found %d)" % len(rets)
        elif awaits:
            bad = "the handler awaits something of its own"
        can_yield = "yield_value" in str([e for _, e in evs])
        # the coroutine type of this instantiation and whether its promise accepts co_yield: a yield_value member of
        # the promise class in the facts, or - for promises whose yield_value is only a template / an overload set
        # that nothing instantiates when the loop is missing - the corpus's own table of yielding types
        m_sig = re.match(r"trompeloeil::co_return_handler_t<(.*?) \(", entry.q)
        rtype = m_sig.group(1) if m_sig else ""
        promise_yields = any(f2.q.startswith(rtype + "::promise_type::yield_value") for f2 in tu.fns.values()) or \
            rtype.startswith(CORPUS_YIELDING)
        if bad is None and rtype and promise_yields and not yields:
            bad = "the promise of %s accepts co_yield, but this handler has no yield loop: every CO_YIELD clause of " \
                  "such a function is silently dropped" % rtype
        if bad is None and yields:
            if len(yields) != 1:
                bad = "there must be a single co_yield site, inside the loop over the yield list"
            else:
                yb, ye = yields[0]
                l = cfg.loop_containing(fn, yb)
                s = str(ye.get("x"))
                if l is None:
                    bad = "co_yield is not inside a loop over the yield list"
                elif l["exit_edges"]:
                    bad = "the yield loop can be left before every CO_YIELD has been produced"
                elif not any(t[:1] == ["mcall"] and erase(t[2]).startswith(NS + "yield_expr_base::") and t[5] is True
                             for t in lib.subtrees(ye.get("x"))):
                    bad = "co_yield does not yield the current list element's expression"
                else:
                    # forwards over the handler's own list: a range-for over *yields, or begin()/++ on it
                    inits = str([e.get("init") for _, e in evs if e["e"] == "decl"])
                    allev = str([{k: v for k, v in e.items() if k != "loc"} for _, e in evs])
                    if LISTF not in erase(inits):
                        bad = "the loop does not range over the handler's own yield list"
                    elif "operator--" in allev or "rbegin" in allev:
                        bad = "the yield list is not traversed forwards (declaration order)"
                    # co_return comes after the loop
                    rb = rets[0][0]
                    if bad is None and rb not in cfg.reach(fn, l["after"]):
                        bad = "co_return is not reached after the yield loop"
                    if bad is None and rb in l["body"]:
                        bad = "co_return happens inside the yield loop"
        if bad is None:
            s = str(rets[0][1].get("x"))
            if FUNCF not in erase(s):
                bad = "co_return does not return the CO_RETURN / CO_THROW expression"
        ctx.ob("C20.b", HANDLER, bad is None, pattern=fn.pat, unit=tu.name, inst=fn.q, detail="" if bad is None else bad)
    # a yield expression evaluates the user's expression on the call's parameters
    for fn in [f for f in tu.fns.values() if f.has_body and f.is_lib and erase(f.rec.get("clsq", "")) == NS + "yield_expr"
               and f.kind == "method" and f.rec.get("params") and not f.rec.get("special")]:
        rets = [e.get("x") for b, e in fn.events() if e["e"] == "return"]
        ok = len(rets) == 1 and any(t[:1] == ["member"] and erase(t[1]).startswith(NS + "yield_expr::") and t[2] == ["this"]
                                    for t in lib.subtrees(rets[0])) and "'param', 0" in str(rets[0])
        ctx.ob("C20.b", NS + "yield_expr::expr", ok, pattern=fn.pat, unit=tu.name, inst=fn.q,
               detail="" if ok else "a CO_YIELD clause must evaluate its own expression on the call's parameters")
    return n


def c20c(ctx, tu):
    """the yield list is one shared object whatever the clause order"""
    FIELD = NS + "call_matcher::yield_expressions"
    n = 0
    for fn in tu.find(NS + "handle_co_yield::action"):
        n += 1
        pushes = [e for b, e in fn.events() if e["e"] == "call" and qe(e) in (A["push_back"], A["push_front"])]
        ok = len(pushes) == 1 and qe(pushes[0]) == A["push_back"] and FIELD in erase(str(pushes[0].get("recv")))
        why = "CO_YIELD must append its expression to the expectation's yield list (declaration order)"
        if ok:
            ok = created_if_absent(fn, FIELD)
            why = "CO_YIELD must create the yield list only when it is absent (a fresh list would drop earlier clauses or " \
                  "detach from the return handler)"
        ctx.ob("C20.c", NS + "handle_co_yield::action", ok, pattern=fn.pat, unit=tu.name, inst=fn.q, detail="" if ok else why)
    for name in (NS + "handle_co_return::action", NS + "handle_co_throw::action"):
        for fn in tu.find(name):
            n += 1
            news = [e for b, e in fn.events() if e["e"] == "ctor" and "co_return_handler_t" in e.get("type", "")]
            if not news:
                # ... or created through make_unique<handler>(function, list)
                news = [e for b, e in fn.events() if e["e"] == "call" and re.match(r"std::make_unique<trompeloeil::co_return_handler_t<", e.get("q") or "")]
            ok = len(news) == 1 and len(news[0]["args"]) == 2 and FIELD in erase(str(news[0]["args"][1]))
            why = "the coroutine return handler must be given the expectation's own yield list"
            if ok:
                # shared, not handed over: the expectation keeps its pointer so that later CO_YIELD clauses append
                # to the list the handler iterates
                moved = [e for b, e in fn.events() if e["e"] == "call" and qe(e).startswith("std::move") and
                         FIELD in erase(str(e.get("args")))]
                ok = not moved and "std::move" not in str(news[0]["args"][1])
                why = "the yield list must be SHARED with the return handler (copied shared_ptr): moving it out of the " \
                      "expectation detaches CO_YIELD clauses written after CO_RETURN / CO_THROW"
            if ok:
                ok = created_if_absent(fn, FIELD)
                why = "CO_RETURN / CO_THROW must create the yield list only when it is absent"
            if ok:
                # installed by reset(new ...) or by assigning the freshly made unique_ptr
                resets = [e for b, e in fn.events() if e["e"] == "call" and
                          (qe(e).endswith("::reset") or (e.get("op") == "=" and qe(e).startswith("std::unique_ptr"))) and
                          "return_handler_obj" in str(e.get("recv"))]
                ok = len(resets) == 1
                why = "the handler must be installed as the expectation's return handler"
            ctx.ob("C20.c", name, ok, pattern=fn.pat, unit=tu.name, inst=fn.q, detail="" if ok else why)
    return n


def created_if_absent(fn, field):
    mk = cfg.find_events(fn, lambda e: e["e"] == "call" and qe(e).startswith("std::make_shared"))
    if len(mk) != 1:
        return False
    g = None
    for bid in fn.blocks:
        c = cfg.cond_of(fn, bid)
        if c is not None and field in erase(str(c)):
            from engine.auto import cond_shape
            g = (bid, cond_shape(c)[1])
    if g is None:
        return False
    bid, pol = g
    # created on the edge where the pointer is null ( !ptr -> true edge )
    return cfg.edge_dominates(fn, (bid, 1 if pol else 0), mk[0][0])


def c20d(ctx, tu):
    for fn in tu.find(NS + "co_throw_handler_t::operator()"):
        rets = [e.get("x") for b, e in fn.events() if e["e"] == "return"]
        s = str(rets)
        ok = len(rets) == 1 and "co_throw_handler_t" in s and "::h'" in s.replace('"', "'") and "default_return" in s
        # the user expression is evaluated first (left operand of the comma)
        if ok:
            x = rets[0]
            ok = x[:2] == ["b", ","] and "::h" in str(x[2]) and "default_return" in str(x[3])
        ctx.ob("C20.d", NS + "co_throw_handler_t::operator()", ok, pattern=fn.pat, unit=tu.name, inst=fn.q,
               detail="" if ok else "the CO_THROW handler must evaluate the user expression (which throws) and never "
               "produce a value normally")


WITNESS_HEAD = open(os.path.join(VERIF, "corpus", "coro.cpp")).read().split("using eager_int")[0]

TYPE_WITNESS = r'''
namespace cor {
using namespace trompeloeil;
static_assert(is_coroutine<task<int, false>>::value && is_coroutine<task<int, true>>::value &&
              is_coroutine<task<void, true>>::value && is_coroutine<op_task<int>>::value &&
              is_coroutine<generator<int>>::value, "coroutine types are detected");
static_assert(!is_coroutine<int>::value && !is_coroutine<void>::value && !is_coroutine<std::string>::value,
              "ordinary return types are not coroutines");
static_assert(std::is_same<coro_value_type_t<task<int, true>>, int>::value, "awaitable task: await_resume type");
static_assert(std::is_same<coro_value_type_t<task<void, false>>, void>::value, "void task");
static_assert(std::is_same<coro_value_type_t<op_task<int>>, int>::value, "operator co_await task");
static_assert(std::is_same<coro_value_type_t<generator<int>>, int>::value, "generator: range value type");
}
int main() {}
'''


def chains():
    """legal clause orders for a lazily started int task: every permutation of every subset of
    {WITH, SIDE_EFFECT, TIMES, IN_SEQUENCE, CO_YIELD(1), CO_YIELD(2)} + CO_RETURN | CO_THROW"""
    opt = [".WITH(_1 > 0)", ".SIDE_EFFECT(glob = _1)", ".TIMES(2)", ".IN_SEQUENCE(s)", ".CO_YIELD(1)", ".CO_YIELD(_1)"]
    out = []
    for k in range(0, 4):
        for sub in itertools.combinations(opt, k):
            for fin in (".CO_RETURN(_1)", ".CO_THROW(1)", ".LR_CO_RETURN(glob)"):
                for perm in itertools.permutations(list(sub) + [fin]):
                    out.append("".join(perm))
    return out


NEG = [
    (".CO_RETURN(1).CO_RETURN(2)", r"Multiple CO_RETURN does not make sense"),
    (".CO_THROW(1).CO_THROW(2)", r"Multiple CO_THROW does not make sense"),
    (".CO_RETURN(1).CO_THROW(2)", r"CO_THROW and CO_RETURN does not make sense"),
    (".CO_THROW(1).CO_RETURN(2)", r"CO_THROW and CO_RETURN does not make sense"),
    (".RETURN(1)", r"Do not use RETURN from a coroutine, use CO_RETURN"),
    (".THROW(1)", r"Do not use THROW from a coroutine, use CO_THROW"),
    (".CO_YIELD(1)", r"CO_RETURN missing for coroutine"),
    ("", r"CO_RETURN missing for coroutine"),
    (".TIMES(0).CO_RETURN(1)", r"CO_RETURN for forbidden call does not make sense"),
    (".TIMES(0).CO_THROW(1)", r"CO_THROW for forbidden call does not make sense"),
    (".CO_RETURN(std::string(\"x\"))", r"Expression type does not match the coroutine promise type"),
    (".CO_YIELD(std::string(\"x\")).CO_RETURN(1)", r"CO_YIELD is incompatible with the promise type"),
]


# coroutine clauses on ORDINARY functions, in every position relative to the ordinary clauses: always rejected,
# with one of the documented texts
ORD_RX = (r"CO_RETURN when return type is not a coroutine|CO_RETURN and RETURN cannot be combined|"
          r"CO_YIELD when return type is not a coroutine|Do not use CO_THROW from a normal function, use THROW")


def ordinary_negatives():
    out = []
    co = {"int(int)": [".CO_RETURN(2)", ".LR_CO_RETURN(2)", ".CO_YIELD(2)", ".CO_THROW(2)", ".LR_CO_THROW(2)"],
          "void(int)": [".CO_RETURN()", ".CO_YIELD(2)", ".CO_THROW(2)"]}
    base = {"int(int)": [[".RETURN(1)"], [".THROW(1)"], [".WITH(_1 == 1)", ".RETURN(1)"], [".SIDE_EFFECT(glob = 1)", ".RETURN(1)"],
                         [".TIMES(2)", ".RETURN(1)"], [".LR_RETURN(glob)"], []],
            "void(int)": [[], [".SIDE_EFFECT(glob = 1)"], [".THROW(1)"], [".TIMES(2)"]]}
    for sig, cos in co.items():
        for b in base[sig]:
            for c in cos:
                for pos in range(len(b) + 1):
                    out.append(("".join(b[:pos]) + c + "".join(b[pos:]), ORD_RX, sig))
    return out


def c20e(ctx):
    from witness import c19gen
    gen = facts.gen_dir()
    os.makedirs(gen, exist_ok=True)
    quick = ctx.tier == "quick"
    cfgs = [("clang++", "c++20")] if quick else [("clang++", "c++20"), ("g++", "c++20")]
    tpath = os.path.join(gen, "c20_types.cpp")
    with open(tpath, "w") as fh:
        fh.write(WITNESS_HEAD + "}\n" + TYPE_WITNESS)
    cs = chains()
    if quick:
        cs = [c for c in cs if c.count(".") <= 4]
    progs = []
    per = max(1, len(cs) // 8 + 1)
    for i in range(0, len(cs), per):
        lines = (WITNESS_HEAD + "using lazy_int = task<int, true>;\nstatic int glob;\n").split("\n")
        cases = {}
        for c in cs[i:i + per]:
            ln = len(lines) + 1
            lines.append("namespace c%d { struct M { MAKE_MOCK1(f, lazy_int(int)); }; inline void t() { M m; "
                         "trompeloeil::sequence s; REQUIRE_CALL(m, f(1))%s; } }" % (ln, c))
            cases[ln] = (c, None)
        lines.append("}\nint main() {}\n")
        progs.append(("c20_pos_%d.cpp" % (i // per), lines, cases))
    lines = (WITNESS_HEAD + "using lazy_int = task<int, true>;\nstatic int glob;\n").split("\n")
    cases = {}
    for c, rx in NEG:
        ln = len(lines) + 1
        lines.append("namespace c%d { struct M { MAKE_MOCK1(f, lazy_int(int)); }; inline void t() { M m; "
                     "trompeloeil::sequence s; REQUIRE_CALL(m, f(1))%s; } }" % (ln, c))
        cases[ln] = (c, rx)
    for c, rx, sig in ordinary_negatives():
        ln = len(lines) + 1
        lines.append("namespace c%d { struct M { MAKE_MOCK1(f, %s); }; inline void t() { M m; "
                     "trompeloeil::sequence s; REQUIRE_CALL(m, f(1))%s; } }" % (ln, sig, c))
        cases[ln] = ("[" + sig + "] " + c, rx)
    lines.append("}\nint main() {}\n")
    progs.append(("c20_neg.cpp", lines, cases))
    jobs, meta = [], []
    for c, s in cfgs:
        jobs.append((cc.syntax_cmd(c, s, tpath), None))
        meta.append(("types", c, s, None, None))
    for name, lines, cases in progs:
        p = os.path.join(gen, name)
        with open(p, "w") as fh:
            fh.write("\n".join(lines))
        for c, s in cfgs:
            jobs.append((cc.syntax_cmd(c, s, p), None))
            meta.append((name, c, s, cases, p))
    n = 0
    for (name, c, s, cases, p), (rc, out) in zip(meta, cc.run_many(jobs)):
        unit = "%s@%s" % (c, s)
        if name == "types":
            ctx.ob("C20.e", "coroutine detection trait witnesses", rc == 0, pattern="verif:rules/C20.py", unit=unit,
                   detail="" if rc == 0 else "trait witness failed: " + out[-600:])
            continue
        by_line = c19gen.attribute(c19gen.diag_blocks(out), os.path.basename(p))
        for ln, (chain, rx) in cases.items():
            n += 1
            errs = by_line.get(ln, [])
            if rx is None:
                ctx.ob("C20.e.order", "legal: " + chain, not errs, pattern="verif:rules/C20.py", unit=unit,
                       detail="" if not errs else "a legal coroutine clause order is rejected: REQUIRE_CALL(m, f(1))" + chain,
                       witness=None if not errs else {"diagnostic": errs[0][-800:]})
            else:
                hit = any(re.search(rx, e) for e in errs)
                ctx.ob("C20.e.misuse", "illegal: " + (chain or "(no CO_RETURN)"), hit, pattern="verif:rules/C20.py", unit=unit,
                       detail="" if hit else "coroutine clause misuse is not rejected with /%s/: REQUIRE_CALL(m, f(1))%s" % (rx, chain))
    return n


def run(ctx):
    ctx.explanation = (
        "C20.a coroutine-returning mock functions instantiate the one generic dispatch / run_actions pattern, so "
        "every C01-C08, C16, C17 obligation is evaluated on them as well (those checks include the coroutine unit); "
        "C20.b structure of the handler coroutine from its CFG: a range-for over its own yield list with one co_yield "
        "of the element's expression per element and no early exit, then exactly one co_return of the return "
        "expression, no other explicit await - clauses are evaluated inside the coroutine body, hence their "
        "exceptions reach the promise and surface at the await; C20.c CO_YIELD appends to the expectation's list, "
        "created only if absent, and CO_RETURN / CO_THROW hand that same list to the handler, so any relative clause "
        "order gives declaration order; C20.d shape of the CO_THROW handler; C20.e compile-time witnesses: detection "
        "traits, every permutation of legal coroutine clause subsets compiles, misuse is rejected with the documented "
        "text.")
    ctx.assumptions = ["suspension, resumption and where an exception surfaces are language semantics of coroutines"]
    ctx.not_decided = ["interleaving of resumptions and independence of several frames at run time",
                       "behaviour of third-party promise types",
                       "lifetime of the call parameters across suspension points: known finding F15 (C14.f)"]
    units = []
    n = 0
    for tu in ctx.units(lambda n: n.startswith("coro") or n == "repo_co20"):
        c20a(ctx, tu)
        n += c20b(ctx, tu)
        c20c(ctx, tu)
        c20d(ctx, tu)
        from rules import C14
        C14.c14f(ctx, tu)    # C20.f: clauses that read _N after the first suspension
        units.append({"unit": tu.name, "functions": len(tu.fns)})
    ctx.floor("C20.b handler coroutine instantiations", n, 6)
    m = c20e(ctx)
    ctx.floor("C20.e clause-order cases", m, 100)
    ctx.extra["units"] = units
