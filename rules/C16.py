"""C16 - OK reports: exactly one per accepted call, naming the expectation that took it;
set_reporter returns the previous reporter(s) and is the only writer of the reporter objects."""
from engine import lib
from engine.auto import Explorer, fmt_trace
from engine.facts import erase
from engine.lib import A, qe


def classify_factory(tu):
    def classify(fn, ev, env):
        k = ev["e"]
        if k != "call":
            return None
        n = qe(ev)
        if n == A["send_ok_report"] or n == A["sendOk"]:
            return ("sym", "ok")
        if n == A["send_report"] or n == A["send"]:
            sev = lib.severity_of(ev["args"][0], env) if ev.get("args") else "?"
            if env is None:
                return ("sym", "send")
            if sev == "fatal":
                return ("term", "fatal")
            if sev == "nonfatal":
                return ("sym", "nonfatal")
            return ("sym", "send?")
        if n == lib.side_effect_action(tu) or n == A["return_handler_call"]:
            return ("sym", "action")
        if lib.noreturn_call(tu, ev):
            return ("term", "noreturn")
        if lib.user_callback(tu, ev):
            return ("skip",)
        return None
    return classify


def delta(q, sym):
    ok, acted, bad = q
    if sym == "ok":
        if acted:
            bad = "OK report after a user action"
        return (min(ok + 1, 2), acted, bad)
    if sym == "action":
        return (ok, True, bad)
    if sym == "send?":
        return (ok, acted, bad or "report with unresolved severity on the call path")
    return None


def c16a(ctx, tu):
    roots = tu.need(A["dispatch"], 5)
    ex = Explorer(tu, classify_factory(tu), delta=delta)
    n_live = 0
    for f in roots:
        # a signature for which the unit never creates an expectation has no overrider of the pure virtual
        # run_actions: its accepted path cannot be taken (find() has nothing to return) and carries no facts
        ra = [e for b, e in f.events() if e["e"] == "call" and qe(e) == A["run_actions_base"]]
        if ra and not any(tu.fns[t].has_body for e in ra for t in tu.targets(e) if t in tu.fns):
            continue
        n_live += 1
        exits, terms = ex.explore(f, (0, False, None))
        if not exits:
            ctx.ob("C16.a", A["dispatch"], None, pattern=f.pat, unit=tu.name,
                   detail="no normal exit found in " + f.q)
            continue
        bad = None
        unresolved = [tr for (ok, acted, flag), tr in exits.items() if flag and "unresolved severity" in flag]
        if unresolved:
            ctx.ob("C16.a", A["dispatch"], None, pattern=f.pat, unit=tu.name, inst=f.q,
                   detail="a report on the call path has a severity this rule cannot follow to a constant")
            continue
        for (ok, acted, flag), tr in exits.items():
            if flag:
                bad = (flag, tr)
            elif ok != 1:
                bad = ("accepted call path with %s OK report%s" % ("no" if ok == 0 else "more than one",
                                                                   "" if ok == 0 else "s"), tr)
            if bad:
                break
        ctx.ob("C16.a", A["dispatch"], bad is None, pattern=f.pat, unit=tu.name, inst=f.q,
               detail="" if bad is None else bad[0],
               witness=None if bad is None else {"entry": f.q, "path": fmt_trace(bad[1])})
        bad = None
        for ((ok, acted, flag), last), tr in terms.items():
            if last == "fatal" and ok != 0:
                bad = ("a call that is reported as a fatal violation also gets an OK report", tr)
                break
        ctx.ob("C16.a.excl", A["dispatch"], bad is None, pattern=f.pat, unit=tu.name, inst=f.q,
               detail="" if bad is None else bad[0],
               witness=None if bad is None else {"entry": f.q, "path": fmt_trace(bad[1])})
    if n_live == 0 and not tu.is_corpus:
        return ex
    if n_live == 0:
        raise lib.AnalysisBroken("C16.a: no dispatch instantiation with an instantiated expectation type in " + tu.name)
    ctx.sample({"rule": "C16.a", "root": roots[0].q, "automaton": "states (ok in 0,1,2+; acted; flag); "
                "every normal exit must have ok=1 and OK before the first side effect / return handler; "
                "every path ending in a fatal report must have ok=0",
                "summaries": ex.stats["summaries"], "functions_visited": len(ex.visited_fns)})
    return ex


def c16b(ctx, tu):
    """The OK sink's argument is the selected expectation's own text."""
    n = 0
    for f in tu.fns.values():
        if not f.has_body or not f.is_lib:
            continue
        if f.qe in (A["send_ok_report"], A["sendOk"]):
            continue
        for b, e in f.events():
            if e["e"] == "call" and qe(e) == A["send_ok_report"]:
                n += 1
                arg = e["args"][0] if e.get("args") else None
                ok, why = ok_argument(tu, f, arg)
                ctx.ob("C16.b", f.qe, ok, pattern=lib_loc(e), unit=tu.name, inst=f.q,
                       detail="" if ok else "OK report text is not the handling expectation's own name: " + why,
                       witness=None if ok else {"site": e.get("loc"), "argument": arg})
    return n


def lib_loc(e):
    from engine.facts import short_loc
    return short_loc(e.get("loc", ""))


def ok_argument(tu, f, arg):
    # unwrap std::string construction from char const*
    t = arg
    while isinstance(t, list) and t and t[0] == "ctor" and t[3]:
        t = t[3][0]
    if not (isinstance(t, list) and t and t[0] == "member"):
        return False, "argument is not a member access"
    field = erase(t[1])
    if field != "trompeloeil::call_matcher_base::name":
        return False, "argument reads field " + field
    base = t[2]
    if base == ["this"]:
        # must be a member of the expectation class that the dispatch function invokes on the candidate
        if f.qe in (A["run_actions"], A["return_value"]):
            return True, ""
        return False, "this->name inside " + f.qe + ", which is not invoked on the selected candidate only"
    if isinstance(base, list) and base and base[0] == "var" and f.qe == A["dispatch"]:
        # the candidate variable: initialised from the selection call
        for b, e in f.events():
            if e["e"] == "decl" and e["var"] == base[1]:
                init = e.get("init")
                if lib.tree_name(init) == A["find"]:
                    return True, ""
        return False, "variable %s is not the result of the selection call" % base[2]
    return False, "name of another object: " + str(base)[:120]


def c16c(ctx, tu):
    """Who touches the reporter objects."""
    # 'the installed reporter' is one per process, not one per thread
    lib.process_wide_state(ctx, tu, "C16.c.global", [A["reporter_obj"], A["ok_reporter_obj"]])
    for role, sink, nsend in (("reporter_obj", "send", 1), ("ok_reporter_obj", "sendOk", 1)):
        users = {}
        for f in tu.fns.values():
            if not f.has_body or f.is_std:
                continue
            for b, e in f.events():
                if e["e"] == "call" and qe(e) == A[role]:
                    users.setdefault(f.id, []).append(e)
        if not users:
            ctx.ob("C16.c", A[role], None, detail="no user of %s found" % A[role])
            continue
        for fid, evs in users.items():
            f = tu.fns[fid]
            if f.qe == A[sink]:
                # must be used only as the callee of an invocation
                ok = False
                for b, e in f.events():
                    if lib.is_std_function_call(e) and lib.tree_name(lib.resolve(f, e.get("recv"))) == A[role]:
                        ok = True
                ctx.ob("C16.c", f.qe, ok, pattern=f.pat, unit=tu.name,
                       detail="" if ok else "sink does not invoke %s() at send time" % role)
            elif f.qe == A["set_reporter"]:
                ok, why = returns_previous(f, role)
                ctx.ob("C16.c", f.qe + "/" + role, ok, pattern=f.pat, unit=tu.name,
                       detail="" if ok else why)
            else:
                ctx.ob("C16.c", f.qe, False, pattern=f.pat, unit=tu.name,
                       detail="%s accesses %s(); only %s and set_reporter may" % (f.qe, role, sink))


def returns_previous(f, role):
    """set_reporter: the returned value is the result of exchanging the reporter object
    (idiom 1: return exchange(obj(), new); idiom 2: save = obj(); obj() = new; return save)."""
    rets = [e for b, e in f.events() if e["e"] == "return"]
    if len(rets) != 1:
        return False, "expected exactly one return"
    x = rets[0].get("x")
    calls = list(lib.tree_calls(x))
    # ... also when the exchanged value is first held in a local that the return expression moves out
    for t in lib.subtrees(x):
        if isinstance(t, list) and t[:1] == ["var"]:
            for b, d in f.events():
                if d["e"] == "decl" and d.get("var") == t[1] and d.get("init") is not None:
                    calls += list(lib.tree_calls(d["init"]))
    for c in calls:
        n = lib.tree_name(c)
        if n and n.endswith("::exchange"):
            args = c[3]
            if args and lib.tree_name(lib.resolve(f, args[0])) == A[role]:
                # second argument must derive from a parameter
                if "param" in str(args[1]):
                    return True, ""
                return False, "exchange() does not install the parameter"
    # idiom 2: save the old value, assign the new one, return the saved one - through any reference alias of
    # the reporter object and any std::move / copy wrapping
    def unwrap(t):
        while isinstance(t, list) and t:
            if t[0] == "cast":
                t = t[2]
            elif t[0] == "ctor" and len(t) > 3 and len(t[3]) == 1:
                t = t[3][0]
            elif t[0] == "call" and erase(t[2]) in ("std::move", "std::forward") and len(t[3]) == 1:
                t = t[3][0]
            else:
                break
        return t

    aliases = set()

    def is_obj(t):
        t = unwrap(t)
        if lib.tree_name(t) == A[role]:
            return True
        return isinstance(t, list) and t[:1] == ["var"] and t[1] in aliases

    def is_target(t):
        # what is assigned TO must be the object itself (or a reference to it) - a copy of it is another object
        while isinstance(t, list) and t:
            if t[0] == "cast":
                t = t[2]
            elif t[0] == "call" and erase(t[2]) in ("std::move", "std::forward") and len(t[3]) == 1:
                t = t[3][0]
            else:
                break
        if lib.tree_name(t) == A[role]:
            return True
        return isinstance(t, list) and t[:1] == ["var"] and t[1] in aliases

    saved = None
    assigned = False
    for b, e in (f.flow_events() if hasattr(f, "flow_events") else f.events()):
        if e["e"] == "decl" and e.get("init") is not None and is_obj(e["init"]):
            if (e.get("type") or "").rstrip().endswith("&"):
                aliases.add(e["var"])
            elif not assigned:
                saved = e["var"]
        if (e["e"] == "call" and e.get("op") == "=" and is_target(e.get("recv"))) or \
                (e["e"] == "assign" and e.get("op") == "=" and is_target(e.get("lhs"))):
            if saved is None:
                return False, "the object is overwritten before its old value was saved"
            if "param" not in str(e.get("args") if e["e"] == "call" else e.get("rhs")):
                return False, "the object is not assigned the parameter"
            assigned = True
    if saved is not None and assigned and x is not None and ("['var', %d," % saved) in str(x):
        return True, ""
    # the two-argument overload delegates to the one-argument one for the violation reporter
    if role == "reporter_obj":
        return False, "return value is not the previous reporter"
    return False, "return value is not the previous OK reporter"


def strip_to_var(t):
    while isinstance(t, list) and t and t[0] in ("ctor", "call", "cast"):
        args = t[3] if t[0] in ("ctor", "call") else [t[2]]
        if not args:
            break
        t = args[0]
    return t if isinstance(t, list) else ["?"]


def run(ctx):
    ctx.explanation = (
        "C16.a: typestate automaton (ok-count, acted, flag) over every path of every instantiation of "
        "the dispatch function, interprocedurally through run_actions / validate / report functions "
        "(virtual calls by class-hierarchy analysis, severity parameters bound per calling context; a "
        "fatal report ends the path): each normal exit has exactly one OK report, sent before the first "
        "side effect or return handler, and no path that ends in a fatal report has one. "
        "C16.b: data-flow of the OK sink's argument - it must be the name field of the object whose "
        "run_actions was selected. C16.c: who-may-access on the two reporter objects and "
        "return-value flow of set_reporter.")
    ctx.assumptions = ["conforming reporter: a fatal report does not return",
                       "no exception edges: an exceptional exit is a prefix of an analysed path"]
    ctx.not_decided = ["what the installed reporter does with the text"]
    total_sites = 0
    units = []
    def want(n):
        return not n.startswith("print") and not n.startswith("match")
    want.with_cpp11 = True     # the C++11 level installs reporters through the library's own exchange()
    for tu in ctx.units(want):
        if tu.name == "cpp11":
            c16c(ctx, tu)
            units.append({"unit": tu.name, "functions": len(tu.fns)})
            continue
        c16a(ctx, tu)
        total_sites += c16b(ctx, tu)
        c16c(ctx, tu)
        units.append({"unit": tu.name, "functions": len(tu.fns)})
    ctx.floor("C16.b OK-sink call sites", total_sites, 1)
    ctx.extra["units"] = units
