"""C14 - any destruction / move order of mocks, expectations, sequences, monitors is safe.

Decided clauses: borrow/detach pairing of every non-owning pointer or reference between library
objects, new => owner on all paths, advance-before-dispose in destroying loops, who-may-delete,
reference parameters of library coroutines across suspension points.  Not decided: that the pointer
surgery of list_elem keeps a well-formed ring (heap-shape reasoning)."""
import re
from engine import cfg, lib
from engine.auto import cond_shape
from engine.facts import erase, short_loc
from engine.lib import A, qe

NS = "trompeloeil::"

# field (template-erased) -> classification
OWNING = {
    NS + "call_matcher::actions", NS + "call_matcher::conditions", NS + "call_matcher::return_handler_obj",
    NS + "call_matcher::sequences", NS + "call_matcher::yield_expressions", NS + "call_modifier::matcher",
    NS + "co_return_handler_t::yields", NS + "lifetime_monitor::sequences", NS + "sequence::obj",
    NS + "expectations::active", NS + "expectations::saturated", NS + "sequence_type::matchers",
}
LITERAL = {  # char const* to string literals / __FILE__ : static storage
    NS + "call_matcher_base::name", NS + "condition_base::id", NS + "lambdas::any_printer::type_name",
    NS + "lifetime_monitor::call_name", NS + "lifetime_monitor::invocation_name", NS + "lifetime_monitor::object_name",
    NS + "location::file", NS + "sequence_matcher::exp_name", NS + "sequence_matcher::seq_name",
}
SCOPE = {  # the borrower lives on the stack of one library call (or inside one full-expression)
    NS + "call_validator_t::obj", NS + "trace_agent::t", NS + "list::iterator::p", NS + "mini_span::begin_",
    NS + "mini_span::end_", NS + "lambdas::regex_check::string_helper::begin_",
    NS + "lambdas::regex_check::string_helper::end_", NS + "stream_sentry::os",
}
USER = {NS + "stream_tracer::stream"}  # refers to a user-supplied object: documented caller duty
NODE = {NS + "list_elem::next", NS + "list_elem::prev"}
CONTAINMENT = {NS + "sequence_matcher::sequence_handler"}
PEER = {  # borrows between independently destroyed library objects: detach + guarded use required
    NS + "sequence_matcher::seq", NS + "tracer::previous", NS + "lifetime_monitor::object_monitor",
    NS + "null_on_move::p",
}


def is_ptr_like(t):
    return t.endswith("*") or t.endswith("&") or t.endswith("*&") or "unique_ptr<" in t or "shared_ptr<" in t \
        or t.startswith(NS + "list<") or t.startswith(NS + "call_matcher_list<")


def c14a_census(ctx, tu, seen):
    for c in tu.classes.values():
        if not c["q"].startswith(NS) or c.get("incomplete") or c.get("lambda"):
            continue
        if "(anonymous" in c["q"] or "(lambda" in c["q"]:
            continue
        for f in c.get("fields", ()):
            if not is_ptr_like(f["t"]):
                continue
            fe = erase(f["q"])
            if fe.rsplit("::", 2)[-2].startswith("(") or "::(anonymous" in fe:
                continue
            if fe == NS + "call_matcher::val":
                continue   # the stored expected values: user values (a smart pointer in there is the user's)
            # a pointer to constant characters is text with static storage duration throughout this library (macro
            # stringification, __FILE__): classified by its type, whatever the member is called
            is_text = re.sub(r"\bconst\b|\s", "", f["t"]) == "char*" and "const" in f["t"]
            # an owning smart pointer keeps its pointee alive by construction, whatever the member is called
            is_owner = bool(re.match(r"^(const )?std::(unique_ptr|shared_ptr)<", f["t"].strip()))
            known = is_text or is_owner or fe in OWNING or fe in LITERAL or fe in SCOPE or fe in USER or fe in NODE or fe in CONTAINMENT or fe in PEER \
                or fe in lib.peer_roles(tu).values() or lib.holder_field(tu, fe) is not None
            # matcher classes store operands by value; a pointer-typed operand is the user's value
            if not known and (fe.startswith(NS + "predicate_matcher::") or fe.startswith(NS + "impl::") or
                              fe.startswith(NS + "lambdas::") or fe.startswith(NS + "ptr_deref::") or
                              fe.startswith(NS + "not_matcher::")):
                continue
            seen.add(fe)
            if not known:
                ctx.ob("C14.a", "field " + fe, None, pattern=short_loc(c.get("loc", "")), unit=tu.name,
                       detail="library class %s has a pointer / reference member %s of type %s that is not classified "
                              "in the borrow table of rules/C14.py (owning / literal / scope / node / containment / peer)"
                              % (c["q"], f["n"], f["t"]))


def c14a_rules(ctx, tu):
    # node links: the node's destructor unlinks on every path
    for fn in tu.find(NS + "list_elem::~list_elem"):
        ul = cfg.find_events(fn, lambda e: e["e"] == "call" and qe(e) == A["unlink"])
        ok = bool(ul) and fn.exit not in cfg.reach(fn, fn.entry, avoid_blocks=set(b for b, _, _ in ul))
        ctx.ob("C14.a", NS + "list_elem::next/prev (detach on destruction)", ok, pattern=fn.pat, unit=tu.name, inst=fn.q,
               detail="" if ok else "a destroyed node stays linked: its neighbours keep pointers into freed memory")
    # containment: a handle's reference to the handler that contains it
    for fn in tu.find(NS + "sequence_handler::sequence_handler"):
        if fn.rec.get("special") or not fn.rec["params"]:
            continue
        inits = [e for b, e in fn.events() if e["e"] == "init" and erase(e.get("field", "")) == NS + "sequence_handler::matchers"]
        ok = len(inits) == 1 and "['u', '*', ['this']]" in str(inits[0].get("x"))
        ctx.ob("C14.a", NS + "sequence_matcher::sequence_handler (containment)", ok, pattern=fn.pat, unit=tu.name, inst=fn.q,
               detail="" if ok else "each sequence handle must refer to the handler object it is a sub-object of")
    # peer: monitor -> slot in the watched object; guarded by `died` (C13.c establishes the guard)
    for fn in tu.find(A["dtor_lifetime_monitor"]):
        back = lib.peer_roles(tu).get("back", NS + "lifetime_monitor::object_monitor")
        uses = cfg.find_events(fn, lambda e: e["e"] in ("assign", "member") and back in erase(str(e)))
        g = [bid for bid in fn.blocks if cfg.cond_of(fn, bid) is not None and lib.died_field(tu) in erase(str(lib.cond_atom(fn, bid)[0]))]
        ok = len(g) == 1 and bool(uses)
        if ok:
            t, pol = lib.cond_atom(fn, g[0])
            alive_edge = 1 if pol else 0     # cond is  !died  -> true edge = alive
            ok = all(cfg.edge_dominates(fn, (g[0], alive_edge), b) for b, _, _ in uses)
        ctx.ob("C14.a", NS + "lifetime_monitor::object_monitor (guarded by died)", ok, pattern=fn.pat, unit=tu.name,
               detail="" if ok else "the monitor touches the slot inside its object without knowing that the object is still alive")
    # peer: watched object -> monitor; every use guarded by the null test, cleared by the monitor's release
    for fn in tu.find(A["dtor_deathwatched"]):
        uses = cfg.find_events(fn, lambda e: e["e"] == "call" and qe(e) == NS + "null_on_move::operator->")
        g = [bid for bid in fn.blocks if cfg.cond_of(fn, bid) is not None and
             lib.tree_name(cond_shape(cfg.cond_of(fn, bid))[0]) == NS + "null_on_move::operator bool"]
        ok = len(g) == 1 and bool(uses)
        if ok:
            pol = cond_shape(cfg.cond_of(fn, g[0]))[1]
            ok = all(cfg.edge_dominates(fn, (g[0], 0 if pol else 1), b) for b, _, _ in uses)
        ctx.ob("C14.a", NS + "null_on_move::p (guarded by null test)", ok, pattern=fn.pat, unit=tu.name, inst=fn.q,
               detail="" if ok else "the watched object follows its monitor pointer without testing it")
    # peer: handle -> sequence_type.  The referent's destructor unlinks the handles, but the handle keeps
    # using its reference: every use must be guarded by the detached state.
    n_uses = 0
    unguarded = []
    for fn in tu.fns.values():
        if not fn.has_body or erase(fn.rec.get("clsq", "")) != NS + "sequence_matcher" or fn.kind in ("ctor", "dtor"):
            continue
        for b, e in fn.events():
            if e["e"] == "member" and erase(e["field"]) == lib.peer_roles(tu).get("seq_ref", NS + "sequence_matcher::seq"):
                n_uses += 1
                guards = [bid for bid in fn.blocks if cfg.cond_of(fn, bid) is not None and
                          ("is_linked" in str(cfg.cond_of(fn, bid)) or "alive" in str(cfg.cond_of(fn, bid)))]
                if not any(cfg.block_dominates(fn, gb, b["id"]) and gb != b["id"] for gb in guards):
                    unguarded.append((fn, e))
    if n_uses:
        fn0 = unguarded[0][0] if unguarded else None
        ctx.ob("C14.a", NS + "sequence_matcher::seq", not unguarded,
               pattern=short_loc(unguarded[0][1].get("loc", "")) if unguarded else "", unit=tu.name,
               detail="" if not unguarded else
               "a sequence handle keeps a reference to its sequence_type; ~sequence_type unlinks the handle but %d use(s) of "
               "the reference (first in %s) are not guarded by the detached state: a call or release after the sequence "
               "object died reads freed memory" % (len(unguarded), fn0.qe),
               witness=None if not unguarded else {"unguarded_uses": [short_loc(e.get("loc", "")) + " in " + f.qe
                                                                      for f, e in unguarded[:8]]})
    # peer: tracer -> previous tracer.  Nothing updates `previous` of a younger tracer when an older one dies.
    writers = []
    for fn in tu.fns.values():
        if not fn.has_body or not fn.is_lib:
            continue
        for b, e in fn.events():
            if e["e"] == "assign" and lib.peer_roles(tu).get("prev_tracer", NS + "tracer::previous") in erase(str(e.get("lhs"))):
                writers.append(fn)
    dt = tu.find(NS + "tracer::~tracer")
    if dt:
        ok = bool(writers)
        ctx.ob("C14.a", NS + "tracer::previous", ok, pattern=dt[0].pat, unit=tu.name,
               detail="" if ok else "a tracer remembers the previously active tracer by raw pointer and re-installs it on "
               "destruction; nothing detaches that pointer when the older tracer dies first (non-LIFO destruction "
               "re-installs a dead tracer, and the next accepted call traces through freed memory)")


def c14b(ctx, tu):
    """every `new` reaches an owner with nothing that can throw in between"""
    n = 0
    for fn in tu.fns.values():
        if not fn.has_body or not fn.is_lib:
            continue
        for bid, b in fn.blocks.items():
            evs = b["ev"]
            for i, e in enumerate(evs):
                if e["e"] != "new":
                    continue
                n += 1
                if e.get("placement"):
                    ok = fn.qe == A["get_lock"]
                    ctx.ob("C14.b", fn.qe + " (placement new)", ok, pattern=short_loc(e.get("loc", "")), unit=tu.name,
                           detail="" if ok else "placement new outside the intentionally leaked global mutex")
                    continue
                # find where the pointer goes: same block, the next call after the (optional) decl
                ok = False
                why = "the allocated object is not handed to an owner"
                var = None
                for j in range(i + 1, len(evs)):
                    x = evs[j]
                    if x["e"] == "decl" and isinstance(x.get("init"), list) and x["init"][:1] == ["new"]:
                        var = x["var"]
                        continue
                    if x["e"] == "call":
                        nme = qe(x)
                        args = str(x.get("args"))
                        takes = ("['new'," in args) or (var is not None and ("['var', %d," % var) in args)
                        if takes and (nme == A["push_back"] or nme.endswith("::reset") or nme.startswith("std::unique_ptr") or
                                      nme.startswith("std::shared_ptr")):
                            ok = True
                            break
                        if takes:
                            why = "the allocated object is passed to %s, which does not own it" % nme
                            break
                        if not x.get("q", "").startswith("std::forward") and not x.get("q", "").startswith("std::move"):
                            # something else runs between allocation and ownership
                            if lib.user_callback(tu, x):
                                why = "a user callback runs between the allocation and the hand-over to an owner"
                                break
                    if x["e"] == "ctor" and "unique_ptr" in x.get("type", "") and "['new'," in str(x.get("args")):
                        ok = True
                        break
                ctx.ob("C14.b", fn.qe, ok, pattern=short_loc(e.get("loc", "")), unit=tu.name, inst=fn.q,
                       detail="" if ok else why)
    return n


def c14cd(ctx, tu):
    # ~list: advance the iterator before disposing the element it stood on
    for fn in tu.find(NS + "list::~list"):
        if "delete_disposer" not in fn.q:
            continue   # borrowing lists: dispose() is [[noreturn]] abort, the list must already be empty
        ls = cfg.loops(fn)
        ok = len(ls) == 1
        if ok:
            order = []
            for bid in sorted(ls[0]["body"], reverse=True):
                for e in fn.blocks[bid]["ev"]:
                    if e["e"] == "call":
                        n = qe(e)
                        if n == NS + "list::iterator::operator++":
                            order.append("advance")
                        elif n.endswith("_disposer::dispose"):
                            order.append("dispose")
            ok = order == ["advance", "dispose"] and not ls[0]["exit_edges"]
        ctx.ob("C14.c", NS + "list::~list", ok, pattern=fn.pat, unit=tu.name, inst=fn.q,
               detail="" if ok else "a destroying loop must advance its iterator before it disposes of the element, "
               "and dispose of every element")
    # who may delete
    for fn in tu.fns.values():
        if not fn.has_body or not fn.is_lib:
            continue
        for b, e in fn.events():
            if e["e"] == "delete":
                ok = fn.qe == NS + "delete_disposer::dispose"
                ctx.ob("C14.d", fn.qe, ok, pattern=short_loc(e.get("loc", "")), unit=tu.name, inst=fn.q,
                       detail="" if ok else "%s deletes an object directly; only the list disposer and smart pointers may" % fn.qe)
    # the owning lists dispose, the borrowing lists never do
    for c in tu.classes.values():
        if erase(c["q"]) != NS + "call_matcher" or c.get("incomplete"):
            continue
        for f in c["fields"]:
            if f["n"] in ("conditions", "actions"):
                ok = "delete_disposer" in f["t"]
                ctx.ob("C14.d", NS + "call_matcher::" + f["n"], ok, pattern=short_loc(c.get("loc", "")), unit=tu.name,
                       detail="" if ok else "clause list %s does not own its nodes: they leak" % f["n"])
    for c in tu.classes.values():
        if erase(c["q"]) == NS + "call_matcher_list" and not c.get("incomplete"):
            ok = all("delete_disposer" not in b["t"] for b in c.get("bases", ()))
            ctx.ob("C14.d", NS + "call_matcher_list", ok, pattern=short_loc(c.get("loc", "")), unit=tu.name,
                   detail="" if ok else "a mock function's expectation list must not own (delete) the expectations")


def c14e(ctx, tu):
    """moved mock: the movable variant's move constructor carries both lists over - the defaulted member-wise one, or
    a hand-written one that moves both (rules/C04.c04h decides; that a moved-from node ends up unlinked is decided
    semantically by C14.g)"""
    from rules import C04
    before = len(ctx.obs) if hasattr(ctx, "obs") else None
    C04.c04h(ctx, tu, rule="C14.e")


def c14f(ctx, tu):
    """a library coroutine must not use a reference parameter after a suspension point the caller can outlive"""
    n = 0
    for fn in tu.fns.values():
        if not fn.has_body or not fn.is_lib or not fn.rec.get("coro"):
            continue
        n += 1
        refs = [i for i, p in enumerate(fn.rec["params"]) if p["t"].endswith("&")]
        susp = cfg.find_events(fn, lambda e: e["e"] in ("co_yield", "co_await") and not e.get("implicit"))
        used = {}
        for sb, si, se in susp:
            after = cfg.reach(fn, sb)
            for bid in after:
                for j, e in enumerate(fn.blocks[bid]["ev"]):
                    if bid == sb and j <= si:
                        # in a loop the same block is reached again after the suspension
                        if sb not in set(s for x in cfg.reach(fn, sb) for s in cfg.succs(fn, x)):
                            continue
                    if e["e"] in ("call", "co_yield", "co_return"):
                        txt = str(e.get("args")) + str(e.get("x"))
                        for i in refs:
                            if ("['param', %d," % i) in txt:
                                used.setdefault(i, e)
        # one obligation per reference parameter: a known finding about one parameter says nothing about another
        for i0 in refs:
            pname = fn.rec["params"][i0]["n"] or ("#%d" % i0)
            bad = used.get(i0)
            # the defect belongs to whoever supplies the reference: when the coroutine is only the forwarding target
            # of a plain (non-coroutine) member of the same class that passes its own parameter on, name that member
            construct, pat = fn.qe, fn.pat
            cur, pi = fn, i0
            for _ in range(3):
                ups = [(cf, e) for cf, b, e in tu.callers().get(cur.id, ()) if cf.is_lib and not cf.rec.get("coro")]
                pats = set(cf.pat for cf, e in ups)
                if len(pats) != 1:
                    break
                cf, e = ups[0]
                if cf.qe.rsplit("::", 1)[0] != cur.qe.rsplit("::", 1)[0]:
                    break            # only a helper of the same class is folded into its entry point
                a = (e.get("args") or [None] * (pi + 1))[pi] if pi < len(e.get("args") or ()) else None
                a = lib.strip_casts(a)
                if isinstance(a, list) and a[:1] == ["member"] and a[2] == ["this"]:
                    # bound to a member of the object the entry point was called on: it lives exactly as long as
                    # `this` would in a member coroutine (the handler object belongs to the expectation)
                    bad = None
                    break
                if not (isinstance(a, list) and a[:1] == ["param"]):
                    break
                cur, pi = cf, a[1]
                construct, pat = cf.qe, cf.pat
            ctx.ob("C14.f", "%s [reference parameter %s]" % (construct, pname), bad is None, pattern=pat, unit=tu.name,
                   inst=fn.q,
                   detail="" if bad is None else "the coroutine %suses its reference parameter `%s` after a suspension point; "
                   "for a generator or a lazily started task the referenced object (a parameter or local of the dispatch "
                   "function) is gone by then (at %s)" % ("" if construct == fn.qe else fn.qe + " ", pname,
                                                          short_loc(bad.get("loc", ""))))
    c14f_args(ctx, tu)
    return n


def c14f_args(ctx, tu):
    """A reference parameter of a library coroutine lives in the coroutine frame as a reference: what a library
    caller binds it to must outlive the caller's own activation.  A temporary (a conversion or a by-value result)
    or a local of the caller dies when the caller returns - before a lazily started coroutine even begins."""
    callers = tu.callers()
    for fn in tu.fns.values():
        if not fn.has_body or not fn.is_lib or not fn.rec.get("coro"):
            continue
        refs = [i for i, p in enumerate(fn.rec["params"]) if p["t"].endswith("&")]
        if not refs:
            continue
        for cf, b, e in callers.get(fn.id, ()):
            if not cf.is_lib or cf.id == fn.id:
                continue
            args = e.get("args") or []
            for i in refs:
                if i >= len(args):
                    continue
                a = args[i]
                why = None
                if isinstance(a, list) and a:
                    if a[0] == "ctor":
                        why = "a temporary created for the call (an implicit conversion)"
                    elif a[0] in ("call", "mcall", "opcall"):
                        cal = tu.fns.get(a[1])
                        ret = (cal.rec.get("ret") if cal is not None else None) or ""
                        if ret and not ret.rstrip().endswith("&") and not ret.rstrip().endswith("*"):
                            why = "the by-value result of %s" % a[2]
                    elif a[0] == "var":
                        decl = [d for _, d in cf.events() if d["e"] == "decl" and d.get("var") == a[1]]
                        t = decl[0].get("type", "") if decl else ""
                        if decl and not t.rstrip().endswith("&") and "static" not in str(decl[0].get("storage", "")):
                            why = "the caller's local `%s`" % a[2]
                ctx.ob("C14.f", fn.qe + " <- " + cf.qe, why is None, pattern=short_loc(e.get("loc", "")), unit=tu.name,
                       inst=cf.q,
                       detail="" if why is None else "reference parameter `%s` of the coroutine %s is bound to %s, which "
                       "is destroyed when %s returns; the coroutine frame keeps the dangling reference"
                       % (fn.rec["params"][i]["n"], fn.qe, why, cf.qe))


def c14h(ctx, tu):
    """The process-wide mutex must outlive static destruction: library objects with static storage duration (a global
    mock for a C API, global NAMED expectations) lock it from their destructors after main() has returned.  In the
    default configuration get_lock() therefore keeps the mutex in storage that is never destroyed - its function-local
    statics are a raw buffer and a raw pointer.  A static local with a destructor (the mutex itself, a smart pointer
    to it) would be destroyed in reverse order of first use, before such globals."""
    n = 0
    for fn in tu.find(NS + "get_lock"):
        if "std::recursive_mutex" not in (fn.rec.get("ret") or ""):
            continue      # user-supplied mutex type (TROMPELOEIL_CUSTOM_RECURSIVE_MUTEX): its lifetime is the user's
        n += 1
        statics = [e for b, e in fn.events() if e["e"] == "decl" and e.get("static")]
        bad = None
        for d in statics:
            t = (d.get("type") or "").strip()
            base = re.sub(r"\[[0-9]*\]$", "", t).strip()
            trivial = base.endswith("*") or base.endswith("&") or base in ("char", "unsigned char", "signed char", "std::byte", "bool", "int",
                                                      "unsigned int", "long", "unsigned long")
            if not trivial:
                bad = "static local `%s` of type %s is destroyed during static destruction" % (d.get("name"), t)
        news = [e for b, e in fn.events() if e["e"] == "new" and "recursive_mutex" in (e.get("type") or "")]
        dels = [e for b, e in fn.events() if e["e"] == "delete"]
        if bad is None and (not statics or not news or dels):
            bad = "the mutex is not created once into storage that is never released"
        ctx.ob("C14.h", NS + "get_lock", bad is None, pattern=fn.pat, unit=tu.name,
               detail="" if bad is None else "the global lock must stay valid until the process ends (objects with static "
               "storage lock it from their destructors): " + bad)
    return n


def c14g(ctx, tu):
    """SHAPE: the four list primitives keep a well-formed ring with the specified membership and order,
    on every canonical ring shape (0..3 elements, every operand position)."""
    from engine.shape import Heap, HeapInterp
    from engine.table import Unknown

    def run_case(fn, heap, this, params):
        it = HeapInterp(tu, fn, heap, this, params)
        it.run(max_steps=200)
        return heap

    def check(rule, fn, cases, what):
        try:
            bad = None
            n = 0
            for desc, heap, this, params, expect in cases:
                n += 1
                run_case(fn, heap, this, params)
                wf = heap.well_formed()
                if wf:
                    bad = "%s: the ring is corrupted (%s)" % (desc, wf)
                    break
                for start, want in expect:
                    got = heap.ring_from(start)
                    if got != want:
                        bad = "%s: expected ring %s, got %s" % (desc, want, got)
                        break
                if bad:
                    break
            ctx.ob(rule, fn.qe, bad is None, pattern=fn.pat, unit=tu.name, inst=fn.q,
                   detail="" if bad is None else what + ": " + bad)
            return n
        except Unknown as u:
            ctx.ob(rule, fn.qe, None, pattern=fn.pat, unit=tu.name, inst=fn.q, detail="cannot interpret: %s" % u)
            return 0
        except KeyError as k:
            ctx.ob(rule, fn.qe, False, pattern=fn.pat, unit=tu.name, inst=fn.q,
                   detail=what + ": a link is followed to a cell that is not part of the heap (%s)" % k)
            return 0

    total = 0
    elems = ["e1", "e2", "e3"]
    # one instantiation per node type is enough for the shape, all are checked
    for fn in tu.find(A["unlink"]):
        cases = []
        for k in range(0, 4):
            ring = ["H"] + elems[:k]
            for x in ring[1:]:
                h = Heap(); h.ring(list(ring))
                rest = [c for c in ring if c != x]
                cases.append(("unlink %s from %s" % (x, ring), h, x, {}, [("H", rest), (x, [x])]))
        h = Heap(); h.ring(["H", "e1"]); h.add("x")
        cases.append(("unlink of an already unlinked node", h, "x", {}, [("x", ["x"]), ("H", ["H", "e1"])]))
        total += check("C14.g", fn, cases, "unlink must take exactly the node out of its ring and leave it self-linked")
    for name, front in ((A["push_front"], True), (A["push_back"], False)):
        for fn in tu.find(name):
            cases = []
            for k in range(0, 4):
                ring = ["H"] + elems[:k]
                h = Heap(); h.ring(list(ring)); h.add("t")
                want = ["H", "t"] + elems[:k] if front else ["H"] + elems[:k] + ["t"]
                cases.append(("%s(t) on %s" % ("push_front" if front else "push_back", ring), h, "H", {0: ("ptr", "t")},
                              [("H", want)]))
            total += check("C14.g", fn, cases, "insertion must put the node %s of the list" % ("at the front" if front else "at the back"))
    for fn in tu.find(NS + "list_elem::operator="):
        if fn.rec.get("special") != "move_assign":
            continue
        cases = []
        for k in range(0, 4):
            # r is a list head (moving a mock / a sequence) or an element; `this` is freshly self-linked
            ring = ["r"] + elems[:k]
            h = Heap(); h.ring(list(ring)); h.add("this")
            cases.append(("move-assign from head r of %s" % ring, h, "this", {0: ("ref", "r")},
                          [("this", ["this"] + elems[:k]), ("r", ["r"])]))
            if k >= 1:
                ring2 = ["H"] + elems[:k]
                for i, x in enumerate(elems[:k]):
                    h = Heap(); h.ring(list(ring2)); h.add("this")
                    want = ["H"] + [("this" if e == x else e) for e in elems[:k]]
                    cases.append(("move-assign from element %s of %s" % (x, ring2), h, "this", {0: ("ref", x)},
                                  [("H", want), (x, [x])]))
        h = Heap(); h.ring(["r", "e1"])
        cases.append(("self move-assignment", h, "r", {0: ("ref", "r")}, [("r", ["r", "e1"])]))
        total += check("C14.g", fn, cases, "moving a node must put the new node in the old one's place (every element keeps "
                       "its neighbours) and leave the old one unlinked")
    # moving a whole list (a movable mock's expectation lists): the new list holds the same elements in the same
    # order and the moved-from list is empty - whether the move is the member-wise default or written by hand
    for fn in tu.find(NS + "list::list"):
        if fn.rec.get("special") != "move_ctor":
            continue
        cases = []
        for k in range(0, 4):
            ring = ["r"] + elems[:k]
            h = Heap(); h.ring(list(ring)); h.add("this")
            cases.append(("move-construct a list from %s" % ring, h, "this", {0: ("ref", "r")},
                          [("this", ["this"] + elems[:k]), ("r", ["r"])]))
        total += check("C14.g", fn, cases, "moving a list must carry its elements over in their order and leave the "
                       "moved-from list empty")
    return total


def run(ctx):
    ctx.explanation = (
        "C14.a census of every pointer / reference / smart-pointer member of every library class against a frozen "
        "borrow table (an unclassified member is analysis-broken), and per borrow kind a structural rule: node links "
        "are unlinked by the node's destructor on every path; containment of a handle in its handler; peer borrows "
        "need a detach in the referent's destructor and a guard on every use (monitor <-> watched object pass; "
        "handle -> sequence_type and tracer -> previous tracer do not: known findings); C14.b every new reaches an "
        "owning sink before anything else can run; C14.c destroying loops advance before disposing; C14.d only the "
        "disposer deletes, owning lists dispose, borrowing lists do not; C14.e moved mock; C14.f reference "
        "parameters of library coroutines are not used after a suspension point (known finding); C14.g SHAPE: "
        "unlink / push_front / push_back / node move-assignment interpreted over every canonical ring shape (0..3 "
        "elements, every operand position) with a symbolic heap: the result is a well-formed ring with the specified "
        "membership and order.")
    ctx.assumptions = ["class-hierarchy analysis over the analysed units"]
    ctx.not_decided = ["ring shapes beyond the canonical abstraction (the primitives touch only the operand and its two "
                       "neighbours; a fourth and further elements are represented by the untouched middle)",
                       "leaks are decided only as 'new reaches an owner'"]
    seen = set()
    units = []
    n_new = n_coro = n_shape = 0
    for tu in ctx.units(lambda n: not n.startswith("print")):
        c14a_census(ctx, tu, seen)
        if tu.find(A["dispatch"]):
            c14a_rules(ctx, tu)
            from rules import protocol
            # the `died` guard of the monitor's back-reference (above) is sound only if a notified monitor is
            # marked as died on EVERY path of notify; otherwise its release writes into the freed object
            protocol.report(ctx, tu, lambda r: r == "C13.d")
            n_new += c14b(ctx, tu)
            c14cd(ctx, tu)
            c14e(ctx, tu)
            n_shape += c14g(ctx, tu)
            c14h(ctx, tu)
            # the sequence's list of handles is a borrowing list (C14.d): ~list must find it empty, so the
            # destructor body has to unlink every handle, whatever its state (C06.b decides exactly that)
            from rules import C06
            C06.c06b(ctx, tu)
            # a watched object may be moved / assigned to: the monitor's back-reference stays valid only if nobody but
            # the monitor writes the object's slot (C13.a decides who does)
            from rules import C13
            C13.c13a(ctx, tu)
        n_coro += c14f(ctx, tu)
        units.append({"unit": tu.name, "functions": len(tu.fns)})
    ctx.floor("C14.a classified pointer-like members", len(seen), 25)
    ctx.floor("C14.b allocation sites", n_new, 6)
    ctx.floor("C14.f library coroutines", n_coro, 1)
    ctx.floor("C14.g ring shape cases", n_shape, 40)
    ctx.extra["units"] = units
    ctx.extra["borrow_table"] = {"owning": sorted(OWNING), "peer": sorted(PEER), "node": sorted(NODE),
                                 "containment": sorted(CONTAINMENT), "scope": sorted(SCOPE), "user": sorted(USER)}
