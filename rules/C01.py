"""C01 - a call is accepted iff a live expectation matches it; otherwise one fatal report."""
import re

from engine import cfg, lib
from engine.auto import Explorer, fmt_trace, cond_shape
from engine.facts import erase, short_loc
from engine.lib import A, qe
from rules import protocol, C08


def c01a(ctx, tu):
    """dispatch: the candidate comes from exactly one selection call over the ACTIVE list of the
    expectations object it was given, and is null-tested before any use."""
    for fn in tu.need(A["dispatch"], 5):
        finds = [e for b, e in fn.events() if e["e"] == "call" and qe(e) == A["find"]]
        cand = C08.candidate_var(fn)
        ok = len(finds) == 1 and cand is not None
        why = "the dispatch function must select its candidate with exactly one selection call"
        if ok:
            a0 = finds[0]["args"][0]
            ok = a0[:1] == ["member"] and lib.holder_field(tu, a0[1]) == "active" and lib.strip_casts(a0[2])[:2] == ["param", 0]
            why = "the candidate must be selected from the ACTIVE list of the expectations object of this mock function"
        if ok:
            # second argument: the tuple built from the call's own parameters
            a1 = finds[0]["args"][1]
            pv = None
            for b, e in fn.events():
                if e["e"] == "decl" and a1[:1] == ["var"] and e["var"] == a1[1]:
                    pv = e
            t = pv.get("type", "") if pv else ""
            inner = t[len("std::tuple<"):-1] if t.startswith("std::tuple<") else None
            ok = pv is not None and inner is not None and (inner == "" or all(
                x.strip().startswith("std::reference_wrapper<") for x in split_top(inner)))
            why = "the selection must be made on the tuple of references to the actual arguments"
        if ok:
            # null test dominates every use of the candidate
            guard = None
            for bid in fn.blocks:
                c = cfg.cond_of(fn, bid)
                if c is None:
                    continue
                t, pol = cond_shape(c)
                if isinstance(t, list) and t[:2] == ["var", cand]:
                    guard = (bid, pol)
            ok = guard is not None
            why = "the candidate is not tested for null"
            if ok:
                bid, pol = guard
                nonnull_edge = 0 if pol else 1
                for b2, blk in fn.blocks.items():
                    for e in blk["ev"]:
                        if e["e"] == "decl" and e.get("var") == cand:
                            continue
                        if ("['var', %d," % cand) in str({k: v for k, v in e.items() if k not in ("loc",)}):
                            if b2 == bid:
                                continue
                            if not cfg.edge_dominates(fn, (bid, nonnull_edge), b2):
                                ok = False
                                why = "the candidate is used on a path where it may be null (%s)" % short_loc(e.get("loc", ""))
        ctx.ob("C01.a", A["dispatch"], ok, pattern=fn.pat, unit=tu.name, inst=fn.q, detail="" if ok else why)


def split_top(s):
    out, depth, cur = [], 0, ""
    for ch in s:
        if ch in "<(":
            depth += 1
        elif ch in ">)":
            depth -= 1
        if ch == "," and depth == 0:
            out.append(cur)
            cur = ""
        else:
            cur += ch
    if cur.strip():
        out.append(cur)
    return out


FORBIDDEN_ON_REJECT = {
    A["increment_call"]: "changes a call count", A["set_limits"]: "changes call limits",
    A["unlink"]: "unlinks an expectation", A["push_back"]: "moves an expectation between lists",
    A["push_front"]: "moves an expectation between lists", A["retire"]: "retires a sequence step",
    A["retire_predecessors"]: "retires sequence steps", A["side_effect_action"]: "runs a SIDE_EFFECT",
    A["return_handler_call"]: "evaluates a RETURN/THROW expression", A["send_ok_report"]: "sends an OK report",
}


def c01b(ctx, tu):
    """no match: exactly one fatal report, noreturn, and nothing else happens"""
    for fn in tu.need(A["dispatch"], 5):
        cand = C08.candidate_var(fn)
        calls = cfg.find_events(fn, lambda e: e["e"] == "call" and qe(e) == A["no_match"])
        ok = len(calls) == 1
        why = "the dispatch function must report a call without candidate through the no-match reporter, once"
        if ok:
            bid, i, e = calls[0]
            a = e["args"]
            ok = lib.holder_field(tu, str(a[0][1])) == "active" and lib.holder_field(tu, str(a[1][1])) == "saturated"
            why = "the no-match reporter must be given the active and the saturated list of this mock function"
            # it sits on the null edge and nothing but argument construction precedes it there
            guard = None
            for b2 in fn.blocks:
                c = cfg.cond_of(fn, b2)
                if c is not None and cond_shape(c)[0][:2] == ["var", cand]:
                    guard = (b2, cond_shape(c)[1])
            if ok and guard:
                null_edge = 1 if guard[1] else 0
                ok = cfg.edge_dominates(fn, (guard[0], null_edge), bid)
                why = "the no-match report is not restricted to the case where no candidate was found"
            if ok and guard:
                # the block after the report does not fall through into the accepting path
                succ = [s for s in fn.blocks[bid].get("succ") or [] if s is not None]
                ok = succ == [fn.exit] or not succ
                why = "after the no-match report the call continues as if it had been accepted"
        ctx.ob("C01.b", A["dispatch"], ok, pattern=fn.pat, unit=tu.name, inst=fn.q, detail="" if ok else why)
    # the no-match reporter itself
    def classify(fn, ev, env):
        if ev["e"] != "call":
            return None
        n = qe(ev)
        if n in (A["send_report"], A["send"]):
            return ("sym", "send_" + lib.severity_of(ev["args"][0], env or {}))
        if n in ("abort", "std::abort", "std::terminate"):
            return ("term", "abort")
        if n in FORBIDDEN_ON_REJECT or n == lib.side_effect_action(tu):
            return ("sym", ("effect", n))
        if lib.user_callback(tu, ev):
            return ("skip",)
        return None

    def delta(q, sym):
        sends, bad = q
        if sym == "send_fatal":
            return (min(sends + 1, 2), bad)
        if sym in ("send_nonfatal", "send_?"):
            return (sends, bad or "the no-match report is not sent with severity fatal")
        if isinstance(sym, tuple) and sym[0] == "effect":
            return (sends, bad or "rejecting a call %s (%s)" % (FORBIDDEN_ON_REJECT.get(sym[1], "runs a SIDE_EFFECT"), sym[1]))
        return None

    for fn in tu.need(A["no_match"], 5):
        ex = Explorer(tu, classify, delta=delta)
        exits, terms = ex.explore(fn, (0, None))
        bad = None
        if exits:
            bad = ("the no-match reporter can return to the dispatch function (it must be noreturn: report, then abort)",
                   list(exits.values())[0])
        for ((sends, flag), last), tr in terms.items():
            if flag:
                bad = (flag, tr)
            elif sends != 1:
                bad = ("a rejected call produces %d fatal reports (must be exactly one)" % sends, tr)
        if not fn.rec.get("noreturn"):
            bad = bad or ("the no-match reporter is not declared [[noreturn]]", None)
        ctx.ob("C01.b", A["no_match"], bad is None, pattern=fn.pat, unit=tu.name, inst=fn.q,
               detail="" if bad is None else bad[0],
               witness=None if bad is None or bad[1] is None else {"path": fmt_trace(bad[1])})


def c01c(ctx, tu):
    """who touches the saturated list / what the selection iterates"""
    allowed = {A["dispatch"]} | set(c + "::~" + c.rsplit("::", 1)[-1] for c in lib.holder_classes(tu)) | \
        set(c + "::" + c.rsplit("::", 1)[-1] for c in lib.holder_classes(tu))
    for f in tu.fns.values():
        if not f.has_body or not f.is_lib:
            continue
        for b, e in f.events():
            if e["e"] == "member" and lib.holder_field(tu, e["field"]) == "saturated":
                ok = f.qe in allowed
                ctx.ob("C01.c", f.qe, ok, pattern=short_loc(e.get("loc", "")), unit=tu.name,
                       detail="" if ok else "%s accesses the saturated-expectation list; only the dispatch function "
                       "(for the no-match report and the saturation step) and mock destruction/move may" % f.qe)
    for fn in tu.need(A["find"], 5):
        # the selection function touches no list other than its parameter
        other = [e for b, e in fn.events() if e["e"] == "member" and lib.holder_field(tu, e["field"])]
        ctx.ob("C01.c", A["find"], not other, pattern=fn.pat, unit=tu.name, inst=fn.q,
               detail="" if not other else "the selection function reaches for a list other than the one it was given")
    # in the dispatch function the saturated list goes only to the no-match reporter and to run_actions
    for fn in tu.need(A["dispatch"], 5):
        bad = None
        for b, e in fn.events():
            if e["e"] == "call" and "::saturated" in str(e.get("args")) + str(e.get("recv")):
                if qe(e) not in (A["no_match"], A["run_actions_base"], A["run_actions"]):
                    bad = qe(e)
        ctx.ob("C01.c", A["dispatch"], bad is None, pattern=fn.pat, unit=tu.name, inst=fn.q,
               detail="" if bad is None else "the dispatch function hands the saturated list to %s: saturated "
               "expectations must never be candidates" % bad)


def c01d(ctx, tu):
    """parameter fold: conjunction over the full index sequence; value-vs-matcher dispatch"""
    n = 0
    for fn in tu.find("trompeloeil::match_parameters"):
        p0 = fn.rec["params"][0]["t"] if fn.rec["params"] else ""
        m = re.match(r"(?:std|trompeloeil::detail)::integer_sequence<unsigned long(.*)>", p0)
        if not m:
            continue
        n += 1
        idx = [x.strip().rstrip("UL").rstrip("ul") for x in m.group(1).split(",") if x.strip()]
        # the indices that MUST be asked are those of the parameter tuple, whatever index pack the function was
        # instantiated with (at C++11 the pack comes from the library's own make_index_sequence)
        pt = fn.rec["params"][1]["t"] if len(fn.rec["params"]) > 1 else ""
        if "tuple<" in pt:
            depth, cur, parts = 0, "", []
            for ch in pt[pt.index("tuple<") + 5:]:
                if ch == "<":
                    depth += 1
                    if depth == 1:
                        continue
                elif ch == ">":
                    depth -= 1
                    if depth == 0:
                        break
                if ch == "," and depth == 1:
                    parts.append(cur)
                    cur = ""
                else:
                    cur += ch
            if cur.strip():
                parts.append(cur)
            arity = len(parts)
            if set(idx) != set(str(i) for i in range(arity)) or len(idx) != arity:
                ctx.ob("C01.d", "trompeloeil::match_parameters", False, pattern=fn.pat, unit=tu.name, inst=fn.q,
                       detail="all parameters must be matched: for %d parameters the function is instantiated over the "
                       "indices %s" % (arity, idx))
                continue
        # semantic: for every valuation of "parameter i matches" the result is the conjunction, and when all match
        # every index has been asked (the fold may be an accumulate over a pack expansion, a recursion
        # over the index pack, a helper - the function is interpreted, helpers followed)
        from engine.table import Interp, Unknown
        from rules.common import Oracle
        import itertools
        k = len(idx)
        if k <= 3:
            vals = list(itertools.product((True, False), repeat=k))
        else:
            vals = [tuple(True for _ in idx)] + [tuple(j != i for j in range(k)) for i in range(k)]
        why = None
        try:
            for v in vals:
                asked = []

                def pm(t, it, v=v, asked=asked):
                    g = re.findall(r"std::get<(\d+)", str(t[3]))
                    if len(set(g)) != 1 or g[0] not in idx:
                        raise Unknown("param_matches on something else than the same index of both tuples")
                    asked.append(g[0])
                    return v[idx.index(g[0])]
                o = Oracle(calls={"trompeloeil::param_matches": pm}, any_call=True, any_param=True).descend_into(tu, depth=20)
                it = Interp(fn, o)
                r = it.run(max_steps=4000)
                if r[0] != "return" or bool(r[1]) != all(v):
                    why = why or "with parameters matching %s the result is %s" % (list(v), r[1] if r[0] == "return" else r[0])
                if all(v) and set(asked) != set(idx):
                    why = why or "when every parameter matches, the indices asked are %s (of %s)" % (sorted(set(asked)), sorted(idx))
            ok = why is None
        except Unknown as u:
            ctx.ob("C01.d", "trompeloeil::match_parameters", None, pattern=fn.pat, unit=tu.name, inst=fn.q,
                   detail="cannot interpret: %s" % u)
            continue
        ctx.ob("C01.d", "trompeloeil::match_parameters", ok, pattern=fn.pat, unit=tu.name, inst=fn.q,
               detail="" if ok else "all parameters must be matched (the result is the conjunction of param_matches over "
               "every index): " + (why or ""))
    for fn in tu.find("trompeloeil::param_matches_impl"):
        third = fn.rec["params"][2]["t"] if len(fn.rec["params"]) > 2 else ""
        rets = [e.get("x") for b, e in fn.events() if e["e"] == "return"]
        if "matcher" in third:
            ok = len(rets) == 1 and rets[0][:1] == ["mcall"] and erase(rets[0][2]).endswith("::matches")
            why = "a matcher operand must be asked matches(actual value)"
        else:
            s = str(rets[0]) if rets else ""
            ok = len(rets) == 1 and ("'=='" in s or "operator==" in s)
            why = "a plain value operand must be compared with == against the actual value"
        ctx.ob("C01.d", "trompeloeil::param_matches_impl", ok, pattern=fn.pat, unit=tu.name, inst=fn.q,
               detail="" if ok else why)
    return n


def run(ctx):
    ctx.explanation = (
        "C01.a the candidate of a mock call comes from exactly one selection call over the active list of the "
        "expectations object the generated function passed in, on the tuple of references to the actual "
        "arguments, and every use is dominated by the non-null edge; C01.b on the null edge the only thing "
        "that happens is the no-match reporter, whose every path is exactly one fatal report followed by abort "
        "and whose transitive callees contain no count / list / sequence / action / OK event; (with the "
        "protocol automaton) a path of run_actions that ends in a fatal report has changed nothing; C01.c the "
        "saturated list is only read by the no-match report and appended to by the saturation step; C01.d "
        "matches = all parameters (conjunction over the full index pack, matcher vs == dispatch) and all WITH "
        "conditions; C01.e expired expectations are unlinked (destructor, mock destruction, saturation step).")
    ctx.assumptions = ["conforming reporter", "which candidate is selected is C02; sequence permission is C05; "
                       "forbidden is C07"]
    ctx.not_decided = ["argument values enter only through matches(), parametrically"]
    units = []
    n = 0
    def want(n):
        return n.startswith("core") or n.startswith("repo_ct") or n.startswith("coro") or n == "cpp11"
    want.with_cpp11 = True     # at C++11 the index packs come from the library's own make_index_sequence
    for tu in ctx.units(want):
        if not tu.find(A["dispatch"]):
            continue
        if tu.name == "cpp11":
            n += c01d(ctx, tu)
            units.append({"unit": tu.name, "functions": len(tu.fns)})
            continue
        c01a(ctx, tu)
        c01b(ctx, tu)
        c01c(ctx, tu)
        n += c01d(ctx, tu)
        protocol.report(ctx, tu, lambda r: True)   # the whole step protocol is a premise of this property
        from rules import C05
        if tu.find(A["seq_cost"]):
            C05.c05a(ctx, tu)    # "permitted by their sequence constraints": cost / order / can_be_called tables
            C05.c05b(ctx, tu)
        from rules import C04
        C04.c04b(ctx, tu)   # C01.e (destructor unlinks) is recorded there
        from rules import C14
        C14.c14g(ctx, tu)   # the invariant "active list = live unsaturated expectations, newest first" survives a mock's move
        C04.c04e(ctx, tu)   # decommission unlinks every element
        C08.c08d(ctx, tu)   # records C01.d for matches()
        from rules import C03
        C03.c03a(ctx, tu)   # the predicates the dispatch relies on, base and overrides
        C03.c03b(ctx, tu)   # "not saturated / not forbidding" presupposes that every TIMES / RT_TIMES form sets the limits it says
        units.append({"unit": tu.name, "functions": len(tu.fns)})
    ctx.floor("C01.d parameter-fold instantiations", n, 5)
    ctx.extra["units"] = units
