"""C13 - deathwatched: a death is reported iff no REQUIRE_DESTRUCTION is alive for it."""
from engine import cfg, lib
from engine.auto import Explorer, fmt_trace, cond_shape
from engine.facts import erase, short_loc
from engine.lib import A, qe
from rules import protocol

SLOT = "trompeloeil::null_on_move::p"


def c13a(ctx, tu):
    """who may write the monitor slot"""
    n = 0
    for f in tu.fns.values():
        if not f.has_body or not f.is_lib:
            continue
        cls = erase(f.rec.get("clsq", ""))
        for b, e in f.events():
            tgt = None
            if e["e"] == "assign":
                tgt = lib.strip_casts(e.get("lhs"))
            elif e["e"] == "init" and "field" in e:
                tgt = ["member", e["field"], ["this"]]
            if not (isinstance(tgt, list) and tgt[:1] == ["member"] and erase(tgt[1]) == lib.peer_roles(tu).get("slot", SLOT)):
                continue
            n += 1
            if e["e"] == "init":
                # constructors: the slot must start empty; copy / move construction must not take the source's
                x = e.get("x")
                ok = x in (["null"], None) or (isinstance(x, list) and x[:1] in (["null"], ["initlist"]) and "param" not in str(x))
                why = "a %s of a watched object must start without a monitor (copies and moves do not inherit)" % (
                    f.rec.get("special") or "constructor")
            else:
                sp = f.rec.get("special")
                if sp in ("copy_assign", "move_assign"):
                    ok = False
                    why = "assigning to a watched object must keep its own requirement: the %s operator writes the monitor slot" % sp
                else:
                    ptypes = [p["t"] for p in f.rec.get("params", [])]
                    ok = cls == "trompeloeil::null_on_move" and len(ptypes) == 1 and ptypes[0].endswith("*") \
                        and e.get("rhs", [None])[:2] == ["param", 0]
                    why = "%s writes the monitor slot; only operator=(T*) (from trompeloeil_expect_death) may" % f.qe
            ctx.ob("C13.a", f.qe + ("/" + f.rec["special"] if f.rec.get("special") else ""), ok,
                   pattern=short_loc(e.get("loc", "") or f.rec.get("loc", "")), unit=tu.name, inst=f.q,
                   detail="" if ok else why)
        # ... nor hand its own slot to anything that could write it (std::swap / std::exchange with a temporary)
        if cls == "trompeloeil::null_on_move" and f.rec.get("special") in ("copy_assign", "move_assign"):
            slot = lib.peer_roles(tu).get("slot", SLOT)
            uses = [e for b, e in f.events() if e["e"] in ("call", "ctor") and
                    any(isinstance(t, list) and t[:1] == ["member"] and erase(t[1]) == slot and t[2] == ["this"]
                        for k in ("args", "recv") for t in lib.subtrees(e.get(k)))]
            n += 1
            ctx.ob("C13.a", f.qe + "/" + f.rec["special"] + " (slot untouched)", not uses, pattern=f.pat, unit=tu.name, inst=f.q,
                   detail="" if not uses else "assigning to a watched object must keep its own requirement: the %s operator "
                   "passes its monitor slot to %s" % (f.rec["special"], qe(uses[0]) if uses[0]["e"] == "call" else "a constructor"))
        # copy / move constructors must not read the source's slot at all
        if cls == "trompeloeil::null_on_move" and f.rec.get("special") in ("copy_ctor", "move_ctor"):
            reads = [e for b, e in f.events() if e["e"] == "member" and erase(e["field"]) == lib.peer_roles(tu).get("slot", SLOT) and "param" in str(e.get("base"))]
            ctx.ob("C13.a", f.qe + "/" + f.rec["special"], not reads, pattern=f.pat, unit=tu.name, inst=f.q,
                   detail="" if not reads else "copy / move construction reads the source's monitor slot")
    # the only caller of operator=(T*) is trompeloeil_expect_death, under the lock
    for f in tu.fns.values():
        if not f.has_body or not f.is_lib:
            continue
        for b, e in f.events():
            if e["e"] == "call" and qe(e) == "trompeloeil::null_on_move::operator=" and \
                    tu.fns[e["callee"]].rec.get("special") is None:
                ok = f.qe == "trompeloeil::deathwatched::trompeloeil_expect_death"
                ctx.ob("C13.a", f.qe + " installs a monitor", ok, pattern=short_loc(e.get("loc", "")), unit=tu.name,
                       detail="" if ok else "%s installs a monitor in a watched object" % f.qe)
    return n


def send_classify(tu):
    def classify(fn, ev, env):
        if ev["e"] == "assign":
            lhs = lib.strip_deref(ev.get("lhs"))
            if isinstance(lhs, list) and lhs[:1] == ["member"] and erase(lhs[1]) == lib.peer_roles(tu).get("back"):
                return ("sym", "clear_slot" if ev.get("rhs") == ["null"] else "write_slot")
            return None
        if ev["e"] != "call":
            return None
        n = qe(ev)
        if n in (A["send_report"], A["send"]):
            return ("sym", "send_" + lib.severity_of(ev["args"][0], env or {}))
        if n == A["notify"]:
            return ("sym", "notify")
        if lib.user_callback(tu, ev):
            return ("skip",)
        if lib.callee_ctx(tu, ev) == "user":
            return ("skip",)
        return None
    return classify


def c13b(ctx, tu):
    """~deathwatched: slot non-null -> notify(), no direct report; null -> exactly one non-fatal report"""
    def edge(fn, cond):
        n = lib.tree_name(cond)
        if n == "trompeloeil::null_on_move::operator bool":
            return "has_monitor"
        return None

    def delta(q, sym):
        mon, notified, sends, bad = q
        if isinstance(sym, tuple) and sym[0] == "cond":
            return (sym[2], notified, sends, bad)
        if sym == "notify":
            if mon is not True:
                bad = bad or "the monitor is notified without the slot having been found non-null"
            return (mon, min(notified + 1, 2), sends, bad)
        if sym == "send_nonfatal":
            return (mon, notified, min(sends + 1, 2), bad)
        if sym in ("send_fatal", "send_?"):
            return (mon, notified, sends, bad or "the destructor of a watched object reports with a severity other than non-fatal")
        return None

    for fn in tu.need(A["dtor_deathwatched"]):
        ex = Explorer(tu, send_classify(tu), edge=edge, delta=delta)
        ex._relevant = {fn.id}      # notify's own reports are C05 / C15; here only the destructor's
        exits, terms = ex.explore(fn, (None, 0, 0, None))
        bad = None
        for (mon, notified, sends, flag), tr in exits.items():
            if flag:
                bad = (flag, tr)
            elif mon is True and (notified != 1 or sends):
                bad = ("an object that dies while a requirement is alive must notify it exactly once and report nothing "
                       "itself (notified %d times, %d reports)" % (notified, sends), tr)
            elif mon is False and (sends != 1 or notified):
                bad = ("an object that dies with no requirement alive must report exactly one non-fatal unexpected "
                       "destruction (%d reports)" % sends, tr)
            elif mon is None:
                bad = ("the destructor does not test whether a requirement is alive", tr)
        ctx.ob("C13.b", A["dtor_deathwatched"], bad is None, pattern=fn.pat, unit=tu.name, inst=fn.q,
               detail="" if bad is None else bad[0],
               witness=None if bad is None else {"path": fmt_trace(bad[1])})


def c13c(ctx, tu):
    """~lifetime_monitor: not died -> one non-fatal report and slot <- null; died -> neither"""
    def edge(fn, cond):
        s = str(cond)
        if lib.died_field(tu) in erase(s) and ("member" in s):
            return "died"
        return None

    def delta(q, sym):
        died, sends, cleared, bad = q
        if isinstance(sym, tuple) and sym[0] == "cond":
            return (sym[2], sends, cleared, bad)
        if sym == "send_nonfatal":
            return (died, min(sends + 1, 2), cleared, bad)
        if sym in ("send_fatal", "send_?"):
            return (died, sends, cleared, bad or "releasing a requirement reports with a severity other than non-fatal")
        if sym == "clear_slot":
            if died is not False:
                bad = bad or "the slot of an object that has already died is written (it lives in freed memory)"
            return (died, sends, True, bad)
        if sym == "write_slot":
            return (died, sends, cleared, bad or "the requirement writes something other than null into the object's slot")
        return None

    for fn in tu.need(A["dtor_lifetime_monitor"]):
        ex = Explorer(tu, send_classify(tu), edge=edge, delta=delta)
        ex._relevant = {fn.id}
        exits, terms = ex.explore(fn, (None, 0, False, None))
        bad = None
        for (died, sends, cleared, flag), tr in exits.items():
            if flag:
                bad = (flag, tr)
            elif died is False and (sends != 1 or not cleared):
                bad = ("a requirement that ends while its object is alive must report exactly one non-fatal 'still "
                       "alive' and detach from the object (reports %d, detached %s)" % (sends, cleared), tr)
            elif died is True and (sends or cleared):
                bad = ("a requirement whose object has died must be released silently", tr)
            elif died is None:
                bad = ("the release of a requirement does not look at whether the object has died", tr)
        ctx.ob("C13.c", A["dtor_lifetime_monitor"], bad is None, pattern=fn.pat, unit=tu.name,
               detail="" if bad is None else bad[0],
               witness=None if bad is None else {"path": fmt_trace(bad[1])})


def c13d(ctx, tu):
    protocol.report(ctx, tu, lambda r: True)   # the whole step protocol is a premise of this property
    for name in ("trompeloeil::lifetime_monitor::is_satisfied", "trompeloeil::lifetime_monitor::is_saturated"):
        for fn in tu.need(name):
            rets = [e.get("x") for b, e in fn.events() if e["e"] == "return"]
            ok = len(rets) == 1 and lib.died_field(tu) in erase(str(rets[0])) and "'!'" not in str(rets[0])
            ctx.ob("C13.d", name, ok, pattern=fn.pat, unit=tu.name,
                   detail="" if ok else "a destruction requirement is satisfied and saturated exactly when the object has died")
    # the monitor registers itself in the object at construction and keeps the reference to the slot
    for fn in tu.find("trompeloeil::lifetime_monitor::lifetime_monitor"):
        if fn.rec.get("special"):
            continue
        inits = [e for b, e in fn.events() if e["e"] == "init" and erase(e.get("field", "")) == lib.peer_roles(tu).get("back")]
        ok = len(inits) == 1 and "trompeloeil_expect_death" in str(inits[0].get("x")) and "['this']" in str(inits[0].get("x"))
        ctx.ob("C13.d", "trompeloeil::lifetime_monitor::lifetime_monitor", ok, pattern=fn.pat, unit=tu.name, inst=fn.q,
               detail="" if ok else "a new requirement must register itself with the watched object")
    for fn in tu.find("trompeloeil::deathwatched::trompeloeil_expect_death"):
        rets = [e.get("x") for b, e in fn.events() if e["e"] == "return"]
        # (possibly through a local reference bound to it)
        ok = len(rets) == 1 and lib.tree_name(lib.resolve(fn, rets[0])) == "trompeloeil::null_on_move::leak"
        ctx.ob("C13.d", "trompeloeil::deathwatched::trompeloeil_expect_death", ok, pattern=fn.pat, unit=tu.name, inst=fn.q,
               detail="" if ok else "expect_death must hand the requirement a reference to the object's own slot")


def c13e(ctx, tu):
    """capacity: the object has one pointer-sized slot.  For `destroying it while one or more are alive ...
    makes each of them satisfied` a second requirement must not make the first unreachable: installing a
    monitor must preserve (chain) the previous one."""
    for fn in tu.find("trompeloeil::deathwatched::trompeloeil_expect_death"):
        reads_old = False
        for b, e in fn.events():
            if e["e"] == "call" and qe(e) in ("trompeloeil::null_on_move::operator bool", "trompeloeil::null_on_move::operator->",
                                               "trompeloeil::null_on_move::operator*"):
                reads_old = True
        ctx.ob("C13.e", "trompeloeil::deathwatched::trompeloeil_expect_death", reads_old, pattern=fn.pat, unit=tu.name,
               inst=fn.q, detail="" if reads_old else
               "a second REQUIRE_DESTRUCTION on the same object overwrites the single monitor slot without chaining the "
               "first: the first requirement is never notified (reported 'still alive') and its release writes through a "
               "stale reference")


def run(ctx):
    ctx.explanation = (
        "C13.a who-may-write on the monitor slot: only operator=(T*) (called only by trompeloeil_expect_death) and "
        "the null-initialising constructors; copy/move constructors do not read the source, copy/move assignment "
        "does not write; C13.b automaton over ~deathwatched: requirement alive -> notify exactly once and no "
        "direct report, none alive -> exactly one non-fatal report; C13.c automaton over ~lifetime_monitor: "
        "object alive -> one non-fatal report and slot cleared, object dead -> neither (the slot is in freed "
        "memory); C13.d notify marks the requirement as died on every path (protocol automaton), both queries "
        "return died; sequence behaviour of notify is C05.d.")
    ctx.assumptions = ["one live requirement per object (several simultaneous ones: known finding F12)"]
    ctx.not_decided = ["histories with two live requirements on one object (capacity argument only)"]
    units = []
    n = 0
    for tu in ctx.units(lambda n: n.startswith("core") or n.startswith("repo_ct")):
        if not tu.find(A["dtor_deathwatched"]):
            continue
        n += c13a(ctx, tu)
        c13b(ctx, tu)
        c13c(ctx, tu)
        c13d(ctx, tu)
        c13e(ctx, tu)
        units.append({"unit": tu.name, "functions": len(tu.fns)})
    ctx.floor("C13.a slot write sites", n, 2)
    ctx.extra["units"] = units
