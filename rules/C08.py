"""C08 - actions: side effects once, in order, then RETURN/THROW once; the handler's only."""
import os
import re

from engine import facts, cc, cfg, lib
from engine.auto import Explorer, fmt_trace, cond_shape
from engine.facts import erase, short_loc, INCLUDE, CACHE
from engine.lib import A, qe
from rules import protocol


# ------------------------------------------------------------------------------- C08.a
def candidate_var(fn):
    """the local of the dispatch function that is initialised from the selection call"""
    for b, e in fn.events():
        if e["e"] == "decl" and lib.tree_name(e.get("init")) == A["find"]:
            return e["var"]
    return None


def c08a(ctx, tu):
    def classify(fn, ev, env):
        if ev["e"] != "call":
            return None
        n = qe(ev)
        if n == A["run_actions_base"] or n == A["run_actions"]:
            return ("sym", ("run_actions", repr(ev.get("recv"))))
        if n in ("trompeloeil::call_matcher_base::return_value", A["return_value"]):
            return ("sym", ("return_value", repr(ev.get("recv"))))
        if n == A["no_match"]:
            return ("term", "no_match")
        if lib.user_callback(tu, ev):
            return ("skip",)
        return None

    def delta(q, sym):
        ra, rv, bad = q
        if isinstance(sym, tuple) and sym[0] == "run_actions":
            if rv:
                bad = bad or "actions run after the return expression"
            return (min(ra + 1, 2), rv, bad)
        if isinstance(sym, tuple) and sym[0] == "return_value":
            if ra != 1:
                bad = bad or "return expression evaluated without the actions having run exactly once before"
            return (ra, min(rv + 1, 2), bad)
        return None

    for fn in tu.need(A["dispatch"], 5):
        cand = candidate_var(fn)
        if cand is None:
            ctx.ob("C08.a", A["dispatch"], None, pattern=fn.pat, unit=tu.name,
                   detail="candidate variable (initialised from the selection call) not found")
            continue
        ex = Explorer(tu, classify, delta=delta)
        exits, terms = ex.explore(fn, (0, 0, None))
        bad = None
        for (ra, rv, flag), tr in exits.items():
            if flag:
                bad = (flag, tr)
            elif ra != 1 or rv != 1:
                bad = ("an accepted call runs the handler's actions %d time(s) and its return expression %d time(s)"
                       % (ra, rv), tr)
        ctx.ob("C08.a", A["dispatch"], bad is None, pattern=fn.pat, unit=tu.name, inst=fn.q,
               detail="" if bad is None else bad[0],
               witness=None if bad is None else {"path": fmt_trace(bad[1])})
        # receivers are the candidate (C02.f / C08.h), and the dispatch returns that call's result
        ok = True
        why = ""
        for b, e in fn.events():
            if e["e"] == "call" and qe(e) in (A["run_actions_base"], "trompeloeil::call_matcher_base::return_value"):
                if e.get("recv", [None, None])[:2] != ["var", cand]:
                    ok = False
                    why = "%s is invoked on something other than the selected candidate" % qe(e)
        rets = [e for b, e in fn.events() if e["e"] == "return"]
        void = fn.rec.get("ret") == "void"
        for r in rets:
            x = r.get("x")
            if x is None and void:
                continue
            if not any(lib.tree_name(c) == "trompeloeil::call_matcher_base::return_value" for c in lib.tree_calls(x)):
                ok = False
                why = "the dispatch function does not return the result of the handler's return expression"
        ctx.ob("C08.h", A["dispatch"], ok, pattern=fn.pat, unit=tu.name, inst=fn.q, detail=why)


def roles08(tu):
    """Names by role, so that a renamed member keeps its rule: the expectation's list of side effects / of conditions
    (the members whose type is a list of side_effect_base / condition_base), the virtual that runs one side effect
    (the only virtual method of side_effect_base besides the destructor), the THROW handler's functor (its only
    field).  Falls back to the reference names."""
    r = getattr(tu, "_roles08", None)
    if r is not None:
        return r
    r = {"actions": "trompeloeil::call_matcher::actions", "conditions": "trompeloeil::call_matcher::conditions",
         "action": A["side_effect_action"], "throw_fn": "trompeloeil::throw_handler_t::h"}
    for c in tu.cls_by_qe.get("trompeloeil::call_matcher", [])[:1]:
        for f in c.get("fields", ()):
            t = f.get("t", "")
            if re.match(r"trompeloeil::list<trompeloeil::side_effect_base<", t):
                r["actions"] = erase(f["q"])
            if re.match(r"trompeloeil::list<trompeloeil::condition_base<", t):
                r["conditions"] = erase(f["q"])
    r["action"] = lib.side_effect_action(tu)
    for c in tu.cls_by_qe.get("trompeloeil::throw_handler_t", [])[:1]:
        fl = c.get("fields", ())
        if len(fl) == 1:
            r["throw_fn"] = erase(fl[0]["q"])
    tu._roles08 = r
    return r


# ------------------------------------------------------------------------------- C08.b
def c08b(ctx, tu):
    protocol.report(ctx, tu, lambda r: True)   # the whole step protocol is a premise of this property
    R = roles08(tu)
    ACT, ACTIONS = R["action"], R["actions"]
    for fn in tu.need(A["run_actions"], 5):
        l = None
        for lp in cfg.loops(fn):
            if cfg.events_in_blocks(fn, lp["body"], lambda e: e["e"] == "call" and qe(e) == ACT):
                l = lp
        if l is None:
            # no call of the side-effect virtual anywhere in the unit: the anchor is gone (analysis broken), else a verdict
            known = any(f.qe == ACT for f in tu.fns.values())
            ctx.ob("C08.b.loop", A["run_actions"], False if known else None, pattern=fn.pat, unit=tu.name, inst=fn.q,
                   detail="no loop running the side effects found" if known else
                   "the function that runs one side effect (%s) was not found" % ACT)
            continue
        # whole list, in list order, no early exit
        rng = None
        for b, e in fn.events():
            if e["e"] == "decl" and e.get("name", "").startswith("__range"):
                init = e.get("init")
                if isinstance(init, list) and init[:1] == ["member"] and erase(init[1]) == ACTIONS:
                    rng = e
        ok = rng is not None and l["kind"] == "rangefor" and not l["exit_edges"]
        if not ok and not l["exit_edges"]:
            # another spelling of the walk: one iteration runs the current element's action exactly once and moves on
            # by one; the walk starts at begin() of the `actions` list
            from rules.common import LoopModel, iter_calls, Oracle
            from engine.table import Unknown
            try:
                lm = LoopModel(fn, l)
                seen = []

                def act(t, it, seen=seen):
                    r = t[3] if t[0] == "mcall" else None
                    seen.append(it.ev(r) if r is not None else None)
                    return None
                o = Oracle(calls=iter_calls("elem", {ACT: act}), any_member=True, any_call=True, any_param=True)
                res, it = lm.step(o, at="elem")
                begins = [e for b, e in fn.events() if e["e"] == "call" and qe(e) == "trompeloeil::list::begin" and
                          erase(str(lib.resolve(fn, e.get("recv")))).find(ACTIONS) >= 0]
                ok = res == ("stop", lm.entry) and len(seen) == 1 and "cur" in str(seen[0]) and bool(begins)
            except Unknown:
                ok = None
        ctx.ob("C08.b.loop", A["run_actions"], ok, pattern=short_loc(l["loc"]), unit=tu.name, inst=fn.q,
               detail="" if ok else "the side-effect loop must range over the whole `actions` list in list order "
               "with no exit other than a callback's exception")
        # ... and EVERY accepted call gets there: once the call has been counted, no path returns without
        # passing the side-effect loop
        incs = cfg.find_events(fn, lambda e: e["e"] == "call" and qe(e) == A["increment_call"])
        ok = bool(incs)
        why = "the call is not counted in run_actions"
        for ib, ii, ie in incs:
            if fn.exit in cfg.reach(fn, ib, avoid_blocks={l["entry"], l["head"]}):
                ok = False
                why = "an accepted (counted) call can leave run_actions without its side effects having run"
        ctx.ob("C08.b.all", A["run_actions"], ok, pattern=fn.pat, unit=tu.name, inst=fn.q, detail="" if ok else why)


# ------------------------------------------------------------------------------- C08.c
def c08c(ctx, tu):
    R = roles08(tu)
    spec = {"trompeloeil::call_matcher::add_condition": R["conditions"],
            "trompeloeil::call_matcher::add_side_effect": R["actions"]}
    for name, field in spec.items():
        for fn in tu.need(name, 1):
            pushes = [e for b, e in fn.events() if e["e"] == "call" and qe(e) in (A["push_back"], A["push_front"])]
            ok = len(pushes) == 1 and qe(pushes[0]) == A["push_back"]
            if ok:
                r = lib.resolve(fn, pushes[0].get("recv"))
                ok = isinstance(r, list) and r[:1] == ["member"] and erase(r[1]) == field
            ctx.ob("C08.c", name, ok, pattern=fn.pat, unit=tu.name, inst=fn.q,
                   detail="" if ok else "%s must append exactly one new clause to %s (declaration order)" % (name, field))
    # nobody else mutates the clause lists
    for f in tu.fns.values():
        if not f.has_body or not f.is_lib:
            continue
        for b, e in f.events():
            if e["e"] == "call" and qe(e) in (A["push_back"], A["push_front"]):
                r = lib.strip_casts(e.get("recv"))
                if isinstance(r, list) and r[:1] == ["member"] and erase(r[1]) in spec.values():
                    ok = f.qe in spec
                    if not ok:
                        ctx.ob("C08.c", f.qe, False, pattern=short_loc(e.get("loc", "")), unit=tu.name,
                               detail="%s inserts into a clause list; only add_condition / add_side_effect may" % f.qe)


def c08d_order(ctx, tu):
    """WITH / LR_WITH clauses are evaluated in declaration order: wherever the matching decision evaluates them, every
    evaluation happens inside the walk over the expectation's clause list (never on a remembered clause ahead of the
    walk) and the walk skips no element (no path from the loop's body back to its head avoids the evaluation)."""
    n = 0
    for fn in tu.find("trompeloeil::call_matcher::match_conditions"):
        if not fn.has_body:
            continue
        checks = cfg.find_events(fn, lambda e: e["e"] == "call" and qe(e) == A["condition_check"])
        if not checks:
            continue        # the decision is made elsewhere (C08.d follows every function that evaluates clauses)
        n += 1
        why = None
        loops_seen = {}
        for bid, i, e in checks:
            l = cfg.loop_containing(fn, bid)
            if l is None:
                why = why or "a clause is evaluated outside the walk over the clause list (at %s): it runs before the " \
                             "clauses declared ahead of it" % short_loc(e.get("loc", ""))
            else:
                loops_seen.setdefault(l["head"], (l, set()))[1].add(bid)
        for head, (l, blocks) in loops_seen.items():
            entry = [x for x in (fn.blocks[head].get("succ") or []) if x in l["body"]]
            for en in entry:
                if en not in blocks and head in cfg.reach(fn, en, avoid_blocks=blocks):
                    why = why or "the walk over the clause list can pass an element without evaluating it"
        ctx.ob("C08.d.order", "trompeloeil::call_matcher::match_conditions", why is None, pattern=fn.pat, unit=tu.name,
               inst=fn.q, detail="" if why is None else "WITH clauses must be evaluated in declaration order: " + why)
    return n


# ------------------------------------------------------------------------------- C08.d
def c08d(ctx, tu):
    """WITH clauses: in every function that evaluates them, once a clause has failed no further
    clause is evaluated (ordered, stops at the first failure)."""
    def classify(fn, ev, env):
        if ev["e"] == "call" and qe(ev) == A["condition_check"]:
            return ("sym", "check")
        return None

    def edge(fn, cond):
        if lib.tree_name(cond) == A["condition_check"]:
            return "check"
        return None

    def delta(q, sym):
        failed, bad = q
        if sym == "check":
            if failed:
                return (failed, "a WITH clause is evaluated after an earlier one has already failed")
            return None
        if isinstance(sym, tuple) and sym[0] == "cond":
            if sym[2] is False:
                return (True, bad)
        return None

    n = 0
    for f in tu.fns.values():
        if not f.has_body or not f.is_lib:
            continue
        if not any(e["e"] == "call" and qe(e) == A["condition_check"] for b, e in f.events()):
            continue
        n += 1
        # intraprocedural: the evaluating function itself (each evaluation pass is one function)
        ex = Explorer(tu, classify, edge=edge, delta=delta)
        ex._relevant = {f.id}
        exits, terms = ex.explore(f, (False, None))
        bad = None
        for (failed, flag), tr in exits.items():
            if flag:
                bad = (flag, tr)
        # the result of a failed check must be used at all (a check whose result is dropped cannot stop)
        uses = [b for b in f.blocks if cfg.cond_of(f, b) is not None and
                lib.tree_name(cond_shape(cfg.cond_of(f, b))[0]) == A["condition_check"]]
        if not uses:
            bad = ("the result of a WITH clause is not branched on", None)
        # list order: ranges over `conditions`
        # list order: the clauses come from iterating `conditions` forwards (range-for, or begin()/++)
        s_all = str([{k: v for k, v in e.items() if k != "loc"} for b, e in f.events()])
        rng = "trompeloeil::call_matcher" in s_all and "::conditions" in s_all and "operator--" not in s_all \
            and "rbegin" not in s_all
        if bad is None and not rng:
            bad = ("WITH clauses are not evaluated by iterating the condition list forwards", None)
        ctx.ob("C08.d", f.qe, bad is None, pattern=f.pat, unit=tu.name, inst=f.q,
               detail="" if bad is None else bad[0],
               witness=None if bad is None or bad[1] is None else {"path": fmt_trace(bad[1])})
    # match_conditions: false on the failing edge, true after the loop
    for fn in tu.find(A["match_conditions"]):
        from rules.common import LoopModel, iter_calls, loop_of, Oracle
        from engine.table import Unknown
        try:
            l = loop_of(fn, A["condition_check"])
            if l is None:
                raise Unknown("loop over the WITH clauses not found")
            lm = LoopModel(fn, l)
            why = None
            for holds in (True, False):
                o = Oracle(calls=iter_calls("elem", {A["condition_check"]: holds}), params={0: ("obj", "params")},
                           any_member=True).descend_into(tu)
                res, it = lm.step(o, at="elem")
                want = ("stop", lm.entry) if holds else ("return", False)
                if res != want and why is None:
                    why = "a clause that %s: expected %s, code does %s" % (
                        "holds" if holds else "fails", "go on to the next clause" if holds else "return false", res)
            o = Oracle(calls=iter_calls("end", {A["condition_check"]: False}), params={0: ("obj", "params")},
                       any_member=True).descend_into(tu)
            res, it = lm.step(o, at="end")
            if res != ("return", True) and why is None:
                why = "after the last clause the result must be true, code does %s" % (res,)
            ctx.ob("C08.d", A["match_conditions"] + " result", why is None, pattern=fn.pat, unit=tu.name, inst=fn.q,
                   detail="" if why is None else "match_conditions must yield false exactly when a clause fails and "
                   "true otherwise: " + why)
        except Unknown as u:
            ctx.ob("C08.d", A["match_conditions"] + " result", None, pattern=fn.pat, unit=tu.name, inst=fn.q,
                   detail="cannot interpret: %s" % u)
    # matches == match_parameters && match_conditions (C01.d) - as one expression, or with the WITH loop written out
    # in matches() itself after a parameter guard
    for fn in tu.need(A["matches"], 3):
        from rules.common import LoopModel, iter_calls, loop_of, Oracle
        from engine.table import Unknown, Interp
        MP = "trompeloeil::match_parameters"
        try:
            why = None
            l = loop_of(fn, A["condition_check"]) if cfg.loops(fn) else None
            if l is None:
                # single expression: decided by its truth table over the two callees
                for pm in (True, False):
                    for mc in (True, False):
                        seen = []
                        def mcf(t, it, mc=mc, seen=seen):
                            seen.append(1)
                            return mc
                        o = Oracle(calls={MP: pm, A["match_conditions"]: mcf}, params={0: ("obj", "params")}, any_member=True)
                        r = Interp(fn, o).run()
                        if r != ("return", pm and mc) and why is None:
                            why = "parameters %s, conditions %s -> %s" % (pm, mc, r)
                        if not pm and seen and why is None:
                            why = "WITH conditions are evaluated although a parameter already rejected the call"
                calls = [e for b, e in fn.events() if e["e"] == "call" and qe(e) in (MP, A["match_conditions"])]
                if why is None and len(calls) != 2:
                    why = "matches() must consult the parameter matchers and the WITH conditions"
            else:
                lm = LoopModel(fn, l)
                # parameters reject: false, before any condition is looked at
                o = Oracle(calls=iter_calls("elem", {MP: False, A["condition_check"]: True}), params={0: ("obj", "params")},
                           any_member=True)
                r = Interp(fn, o).run(stop_blocks={lm.entry})
                if r != ("return", False):
                    why = "a call whose parameters do not match must be rejected before the WITH conditions are evaluated"
                for holds in (True, False):
                    o = Oracle(calls=iter_calls("elem", {MP: True, A["condition_check"]: holds}), params={0: ("obj", "params")},
                               any_member=True)
                    res, it = lm.step(o, at="elem")
                    want = ("stop", lm.entry) if holds else ("return", False)
                    if res != want and why is None:
                        why = "a WITH condition that %s: expected %s, code does %s" % (
                            "holds" if holds else "fails", "go on" if holds else "return false", res)
                o = Oracle(calls=iter_calls("end", {MP: True, A["condition_check"]: False}), params={0: ("obj", "params")},
                           any_member=True)
                res, it = lm.step(o, at="end")
                if res != ("return", True) and why is None:
                    why = "with matching parameters and no failing condition the result must be true, code does %s" % (res,)
            # the parameter matchers get THIS expectation's expected values and the call's actual parameters
            mps = [e for b, e in fn.events() if e["e"] == "call" and qe(e) == MP]
            if why is None:
                a = mps[0]["args"] if mps else []
                if not (len(a) == 2 and a[0][:1] == ["member"] and erase(a[0][1]) == "trompeloeil::call_matcher::val" and
                        a[0][2] == ["this"] and a[1][:2] == ["param", 0]):
                    why = "the parameter matchers must be given this expectation's values and the call's parameters"
            ctx.ob("C01.d", A["matches"], why is None, pattern=fn.pat, unit=tu.name, inst=fn.q,
                   detail="" if why is None else "matches() must be: all parameters match AND all WITH conditions hold: " + why)
        except Unknown as u:
            ctx.ob("C01.d", A["matches"], None, pattern=fn.pat, unit=tu.name, inst=fn.q, detail="cannot interpret: %s" % u)
    return n


# ------------------------------------------------------------------------------- C08.e / C08.f
def c08ef(ctx, tu):
    for fn in tu.find("trompeloeil::throw_handler_t::operator()"):
        # user expression evaluated once, then abort: no normal return of a value is reachable
        calls = [(b["id"], e) for b, e in fn.events() if e["e"] == "call"]
        user = [(bid, e) for bid, e in calls if e.get("recv") is not None and
                erase(str(e["recv"][1] if e["recv"][:1] == ["member"] else "")) == roles08(tu)["throw_fn"]]
        aborts = [(bid, e) for bid, e in calls if qe(e) in ("abort", "std::abort")]
        ok = len(user) == 1 and len(aborts) >= 1
        if ok:
            # every path from the user call goes to abort: exit is not reachable from entry
            ok = fn.exit not in cfg.reach(fn, fn.entry, avoid_blocks={aborts[0][0]}) or \
                all(fn.exit not in cfg.reach(fn, fn.entry, avoid_blocks={a[0] for a in aborts}) for _ in [0])
        ctx.ob("C08.e", "trompeloeil::throw_handler_t::operator()", ok, pattern=fn.pat, unit=tu.name, inst=fn.q,
               detail="" if ok else "the THROW handler must evaluate the user expression once and never return normally")
    for fn in tu.need(A["return_value"], 3):
        calls = [e for b, e in fn.events() if e["e"] == "call"]
        rh = [e for e in calls if qe(e) == A["return_handler_call"]]
        dr = [e for e in calls if qe(e) == "trompeloeil::default_return"]
        ok = len(rh) == 1 and len(dr) == 1
        if ok:
            # default only on the null-handler edge
            g = None
            for bid in fn.blocks:
                c = cfg.cond_of(fn, bid)
                if c is not None and "return_handler_obj" in str(c):
                    g = (bid, cond_shape(c))
            ok = g is not None
            if ok:
                bid, (t, pol) = g
                # cond is  !handler  (pol False on the handler)  -> true edge = no handler
                null_edge = 0 if not pol else 1
                drb = cfg.find_events(fn, lambda e: e["e"] == "call" and qe(e) == "trompeloeil::default_return")[0][0]
                rhb = cfg.find_events(fn, lambda e: e["e"] == "call" and qe(e) == A["return_handler_call"])[0][0]
                ok = cfg.edge_dominates(fn, (bid, null_edge), drb) and cfg.edge_dominates(fn, (bid, 1 - null_edge), rhb)
        ctx.ob("C08.f", A["return_value"], ok, pattern=fn.pat, unit=tu.name, inst=fn.q,
               detail="" if ok else "return_value must evaluate the return handler exactly once, and fall back to the "
               "default only when there is none")


# ------------------------------------------------------------------------------- C08.g
WITNESS = r'''
#include <trompeloeil.hpp>
#include <type_traits>
#include <string>
namespace w {
struct T {};
using trompeloeil::decay_return_type;
static T lv; static const T clv{}; static T arr[3];
static_assert(std::is_same<decltype(decay_return_type(lv)), T&>::value, "lvalue reference is kept (aliases the object)");
static_assert(std::is_same<decltype(decay_return_type(clv)), const T&>::value, "const lvalue reference is kept");
static_assert(std::is_same<decltype(decay_return_type(T{})), T>::value, "rvalue becomes a value");
static_assert(std::is_same<decltype(decay_return_type(static_cast<T&&>(lv))), T>::value, "xvalue becomes a value");
static_assert(std::is_same<decltype(decay_return_type(arr)), T*>::value, "array decays to pointer");
static int i; static const int ci = 0; static int* const cpi = &i; static int* pi = &i;
static_assert(std::is_same<decltype(decay_return_type(i)), int&>::value, "scalar lvalue keeps its reference");
static_assert(std::is_same<decltype(decay_return_type(ci)), const int&>::value, "const scalar lvalue keeps its reference");
static_assert(std::is_same<decltype(decay_return_type(cpi)), int* const&>::value, "const pointer lvalue keeps its reference");
static_assert(std::is_same<decltype(decay_return_type(pi)), int*&>::value, "pointer lvalue keeps its reference");
static_assert(std::is_same<decltype(decay_return_type(1)), int>::value, "scalar rvalue becomes a value");
static_assert(std::is_same<decltype(std::declval<trompeloeil::trace_agent&>().trace_return(std::declval<T&>())), T&>::value,
              "trace_return keeps T&");
static_assert(std::is_same<decltype(std::declval<trompeloeil::trace_agent&>().trace_return(std::declval<T>())), T>::value,
              "trace_return keeps T");
static_assert(std::is_same<trompeloeil::return_of_t<int&(int&)>, int&>::value, "return_of_t of a reference signature");
static_assert(std::is_same<decltype(std::declval<trompeloeil::return_handler<T&(int)>&>().call(
                 std::declval<trompeloeil::trace_agent&>(),
                 std::declval<trompeloeil::call_params_type_t<T&(int)>&>())), T&>::value,
              "the return handler of a reference-returning function returns that reference type");
struct M {
  MAKE_MOCK1(r, T&(T&));
  MAKE_MOCK0(v, T());
};
static_assert(std::is_same<decltype(std::declval<M&>().r(lv)), T&>::value, "mock function returns T&");
}
int main() {}
'''


RAISERS = ("std::rethrow_exception", "std::rethrow_if_nested", "std::throw_with_nested",
           "std::nested_exception::rethrow_nested", "std::__throw_with_nested_impl")


def c08h(ctx, tu, rule="C08.h"):
    """The caller receives the exception the action threw: the dispatch function's handlers record it and rethrow it,
    so nothing they run in between may let ANOTHER exception out.  In every library function the handlers call (the
    agent's recorder and what it calls), each statement that raises on purpose - `throw;`, a rethrow helper of the
    standard library - lies lexically inside a try block that has a catch-all handler (a handler's own body is not
    covered by its sibling handlers)."""
    n = 0
    for fn in tu.find(A["dispatch"]):
        if not fn.has_body:
            continue
        catches = [b for b in fn.rec["blocks"] if b.get("catch")]
        todo = []
        for cb in catches:
            for bid in cfg.reach(fn, cb["id"]):
                for e in fn.blocks[bid]["ev"]:
                    if e["e"] == "call":
                        for t in tu.targets(e):
                            f2 = tu.fns.get(t)
                            if f2 is not None and f2.has_body and f2.is_lib:
                                todo.append(f2)
        seen = set()
        depth = {f.id: 0 for f in todo}
        while todo:
            f2 = todo.pop()
            if f2.id in seen:
                continue
            seen.add(f2.id)
            n += 1
            tries = {t["id"]: t for t in f2.rec.get("tries", ())}
            bad = None
            for b, e in f2.events():
                raising = (e["e"] == "throw") or (e["e"] == "call" and (erase(e.get("q") or "") in RAISERS or
                                                                        (qe(e) or "") in RAISERS))
                if raising:
                    chain = e.get("try") or []
                    if not any("..." in tries.get(i, {}).get("handlers", ()) for i in chain) and bad is None:
                        bad = "%s at %s is not inside a try block with a catch-all handler" % (
                            "`throw`" if e["e"] == "throw" else (e.get("q") or "").split("<")[0], short_loc(e.get("loc", "")))
                if e["e"] == "call" and depth[f2.id] < 2:
                    for t in tu.targets(e):
                        f3 = tu.fns.get(t)
                        if f3 is not None and f3.has_body and f3.is_lib and f3.id not in seen:
                            depth.setdefault(f3.id, depth[f2.id] + 1)
                            todo.append(f3)
            ctx.ob(rule, f2.qe + " (called from the dispatch function's exception handler)", bad is None, pattern=f2.pat,
                   unit=tu.name, inst=f2.q, detail="" if bad is None else "an exception raised while the thrown one is being "
                   "recorded would replace it on its way to the caller: " + bad)
    return n


def c08g(ctx):
    os.makedirs(facts.gen_dir(), exist_ok=True)
    path = os.path.join(facts.gen_dir(), "c08_types.cpp")
    with open(path, "w") as fh:
        fh.write(WITNESS)
    cfgs = [("clang++", "c++17")] if ctx.tier == "quick" else [(c, s) for c in ("clang++", "g++")
                                                                for s in ("c++14", "c++17", "c++20")]
    res = cc.run_many([(cc.syntax_cmd(c, s, path), None) for c, s in cfgs])
    n_asserts = WITNESS.count("static_assert")
    for (c, s), (rc, out) in zip(cfgs, res):
        ctx.ob("C08.g", "reference identity type witnesses", rc == 0, pattern="verif:rules/C08.py", unit="%s@%s" % (c, s),
               detail="" if rc == 0 else "type witness failed: " + out[-700:])
    ctx.extra["type_witness_static_asserts"] = n_asserts


def run(ctx):
    ctx.explanation = (
        "C08.a automaton over every dispatch instantiation: on each accepted path run_actions exactly once, then "
        "return_value exactly once, both on the selected candidate, and the dispatch returns that result; C08.b "
        "(with the protocol automaton) counting precedes the first side effect and the side-effect loop ranges "
        "over the whole list with no early exit; C08.c clause lists are appended to, by add_condition / "
        "add_side_effect only; C08.d in every function that evaluates WITH clauses no clause is evaluated after "
        "one has failed (edge-sensitive automaton) and match_conditions returns false exactly on a failing "
        "edge; C08.e/f shape of the THROW handler and of return_value; C08.g compile-time witnesses for "
        "reference identity.")
    ctx.assumptions = ["user clause expressions are opaque", "no exception edges: a throwing clause is a path prefix"]
    ctx.not_decided = ["what the user's expressions compute"]
    units = []
    n = 0
    for tu in ctx.units(lambda n: n.startswith("core") or n.startswith("repo_ct") or n.startswith("coro")):
        c08a(ctx, tu)
        c08b(ctx, tu)
        c08c(ctx, tu)
        n += c08d(ctx, tu)
        c08d_order(ctx, tu)
        c08ef(ctx, tu)
        c08h(ctx, tu)
        units.append({"unit": tu.name, "functions": len(tu.fns)})
    ctx.floor("C08.d functions evaluating WITH clauses", n, 2)
    c08g(ctx)
    ctx.extra["units"] = units
