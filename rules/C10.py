"""C10 - scalar matchers and combinators accept exactly their mathematical predicate."""
import os
import re

from engine import cfg, lib
from engine.facts import erase, short_loc
from engine.lib import qe
from engine.table import Interp, Unknown, product
from rules.common import Oracle, ret_value

L = "trompeloeil::lambdas::"
CMP = {
    "equal": ("==", lambda x, y: x == y, " == ", "eq"),
    "not_equal": ("!=", lambda x, y: x != y, " != ", "ne"),
    "less": ("<", lambda x, y: x < y, " < ", "lt"),
    "less_equal": ("<=", lambda x, y: x <= y, " <= ", "le"),
    "greater": (">", lambda x, y: x > y, " > ", "gt"),
    "greater_equal": (">=", lambda x, y: x >= y, " >= ", "ge"),
}


def has_user_ops(fn):
    return any(e["e"] == "call" and e.get("op") for b, e in fn.events())


def c10a(ctx, tu):
    n = 0
    for name, (op, spec, opstr, factory) in CMP.items():
        fns = [f for f in tu.find(L + name + "::operator()") if not has_user_ops(f)]
        if not fns:
            ctx.ob("C10.a", L + name, None, unit=tu.name, detail="no arithmetic instantiation of %s in unit" % name)
        for fn in fns:
            n += 1
            try:
                bad = None
                for x in (0, 1, 2):
                    for y in (0, 1, 2):
                        r = bool(ret_value(fn, Oracle(params={0: x, 1: y}, calls={"trompeloeil::ignore": None})))
                        if r != spec(x, y):
                            bad = "actual=%d operand=%d gives %s" % (x, y, r)
                ctx.ob("C10.a", L + name + "::operator()", bad is None, pattern=fn.pat, unit=tu.name, inst=fn.q,
                       detail="" if bad is None else "%s(v) must accept x exactly when x %s v: %s" % (factory, op, bad))
            except Unknown as u:
                ctx.ob("C10.a", L + name + "::operator()", None, pattern=fn.pat, unit=tu.name, detail="cannot interpret: %s" % u)
        # the paired printer names the same operator
        for fn in tu.find(L + name + "_printer::operator()"):
            strs = [a for b, e in fn.events() if e["e"] == "call" and e.get("op") == "<<" for a in (e.get("args") or [])
                    if isinstance(a, list) and a[:1] == ["str"]]
            ok = [s[1] for s in strs] == [opstr]
            ctx.ob("C10.a.print", L + name + "_printer", ok, pattern=fn.pat, unit=tu.name, inst=fn.q,
                   detail="" if ok else "the printer paired with %s must print '%s'; prints %s" % (name, opstr.strip(), strs))
        # the public factory builds its matcher from this predicate and this printer
        for fn in tu.find("trompeloeil::" + factory):
            # (everything the factory evaluates on its way to the result, wherever the construction is spelled)
            s = str([{k: v for k, v in e.items() if k in ("x", "args", "rhs", "init", "q", "type")} for b, e in fn.events()
                     if e["e"] in ("return", "call", "ctor", "assign", "decl")])
            ok = ("trompeloeil::make_matcher" in s and (L + name + "'") in s.replace('"', "'") and
                  (L + name + "_printer'") in s.replace('"', "'"))
            # and from no other comparison
            others = [o for o in CMP if o != name and ("'" + L + o + "'") in s.replace('"', "'")]
            ctx.ob("C10.a.factory", "trompeloeil::" + factory, ok and not others, pattern=fn.pat, unit=tu.name, inst=fn.q,
                   detail="" if ok and not others else "%s() must be built from the %s predicate and its printer" % (factory, name))
    # operand order: actual value first, stored operands after it, in order
    for fn in tu.find("trompeloeil::predicate_matcher::matches_"):
        rets = [e.get("x") for b, e in fn.events() if e["e"] == "return"]
        ok = len(rets) == 1
        if ok:
            t = rets[0]
            args = t[4] if t[0] == "mcall" else (t[4][1:] if t[0] == "opcall" else None)
            ok = args is not None and len(args) >= 1 and "'param', 0" in str(args[0]) and "::value" not in str(args[0])
            idx = re.findall(r"std::get<(\d+)", str(args[1:])) if ok else []
            ok = ok and idx == [str(i) for i in range(len(args) - 1)] and all("::value" in str(a) for a in args[1:])
        n += 1
        ctx.ob("C10.a.order", "trompeloeil::predicate_matcher::matches_", ok, pattern=fn.pat, unit=tu.name, inst=fn.q,
               detail="" if ok else "the predicate must be applied to (actual value, stored operands in order)")
    return n


def c10bc(ctx, tu):
    # wildcard and ANY accept everything
    for qn in ("trompeloeil::wildcard::matches", L + "any_predicate::operator()"):
        for fn in tu.find(qn):
            rets = [e.get("x") for b, e in fn.events() if e["e"] == "return"]
            ok = rets == [["bool", True]]
            ctx.ob("C10.b", qn, ok, pattern=fn.pat, unit=tu.name, inst=fn.q,
                   detail="" if ok else "_ / ANY must accept every value")
    # !m
    for fn in tu.find("trompeloeil::not_matcher::matches"):
        try:
            bad = None
            for inner in (True, False):
                o = Oracle(calls={"*::matches": inner}, params={0: ("obj", "u")},
                           members={"trompeloeil::not_matcher::m": ("obj", "m")})
                r = bool(ret_value(fn, MatchesOracle(inner)))
                if r != (not inner):
                    bad = "inner matcher %s -> !m %s" % (inner, r)
            ctx.ob("C10.c", "trompeloeil::not_matcher::matches", bad is None, pattern=fn.pat, unit=tu.name, inst=fn.q,
                   detail="" if bad is None else "!m must accept exactly what m rejects: " + bad)
        except Unknown as u:
            ctx.ob("C10.c", "trompeloeil::not_matcher::matches", None, pattern=fn.pat, unit=tu.name, detail="cannot interpret: %s" % u)


class MatchesOracle:
    """inner-matcher calls (X::matches / param_matches) answer `inner`; null tests answer `nonnull`;
    dereferencing a null pointer is an error"""

    def __init__(self, inner, nonnull=True, per_param=None, tu=None, depth=3, params=None):
        self.inner = inner
        self.nonnull = nonnull
        self.per_param = per_param
        self.derefs_of_null = 0
        self.tu = tu
        self.depth = depth
        self.params = params

    def _descend(self, t, it):
        """a library helper the guard was factored into (is_null, ...) is interpreted from its own body, for the
        instantiation the call resolves to"""
        if self.tu is None or self.depth <= 0 or t[0] != "call":
            return None
        callee = self.tu.fns.get(t[1])
        if callee is None or not callee.has_body or not callee.is_lib:
            return None
        vals = {}
        for i, a in enumerate(t[3]):
            try:
                vals[i] = it.ev(a)
            except Unknown:
                vals[i] = ("obj", "arg")
        child = MatchesOracle(self.inner, self.nonnull, self.per_param, self.tu, self.depth - 1, vals)
        r = ret_value(callee, child)
        self.derefs_of_null += child.derefs_of_null
        return (r,)

    def __call__(self, kind, t, it):
        if kind == "call":
            n = lib.tree_name(t) or ""
            if n.endswith("::matches") or n == "trompeloeil::param_matches":
                # evaluate arguments (this is where a null dereference would happen)
                args = t[4] if t[0] in ("mcall", "opcall") else t[3]
                for a in args:
                    if isinstance(a, list) and (a[:2] == ["u", "*"] or (a[0] == "opcall" and a[3] == "*")):
                        if not self.nonnull:
                            self.derefs_of_null += 1
                if self.per_param is not None and n == "trompeloeil::param_matches":
                    a0 = t[3][0]
                    if isinstance(a0, list) and a0[:1] == ["param"]:
                        return self.per_param[a0[1]]
                return self.inner
            if n in ("std::operator!=", "std::operator=="):
                eq = not self.nonnull
                return eq if n.endswith("==") else not eq
            if t[0] == "opcall" and t[3] in ("==", "!=") and "['null']" in str(t[4]):
                # a user-provided comparison of the pointer-like value with nullptr (possibly through a conversion)
                eq = not self.nonnull
                return eq if t[3] == "==" else not eq
            if t[0] == "opcall" and t[3] == "*" and len(t[4]) == 1:
                # a user-provided dereference operator
                v = it.ev(t[4][0])
                if v is None or not self.nonnull:
                    self.derefs_of_null += 1
                return ("obj", "pointee")
            sub = self._descend(t, it)
            if sub is not None:
                return sub[0]
            if n.startswith("std::ref") or n.startswith("std::forward") or n.startswith("std::mem_fn") or \
                    n.startswith("std::_Mem_fn") or n == "std::unique_ptr::operator*" or n == "trompeloeil::ignore":
                return ("obj", "x")
            if t[0] == "ctor":
                return ("obj", "tmp")
            raise Unknown("call " + n)
        if kind == "param":
            if self.params is not None:
                if t[1] in self.params:
                    return self.params[t[1]]
                raise Unknown("parameter %s of a helper" % t[2])
            return ("ptr", ("obj", "pointee")) if self.nonnull else None
        if kind in ("member", "this"):
            return ("obj", "m")
        if kind == "deref":
            if not self.nonnull:
                self.derefs_of_null += 1
            return ("obj", "pointee")
        raise Unknown(kind)


def c10d(ctx, tu):
    for fn in tu.find("trompeloeil::ptr_deref::matches"):
        try:
            bad = None
            for nonnull in (True, False):
                for inner in (True, False):
                    o = MatchesOracle(inner, nonnull, tu=tu)
                    r = bool(ret_value(fn, o))
                    if r != (nonnull and inner):
                        bad = "pointer %s, pointee %s -> %s" % ("non-null" if nonnull else "null",
                                                                "accepted" if inner else "rejected", r)
                    if o.derefs_of_null:
                        bad = "a null pointer is dereferenced"
            ctx.ob("C10.d", "trompeloeil::ptr_deref::matches", bad is None, pattern=fn.pat, unit=tu.name, inst=fn.q,
                   detail="" if bad is None else "*m must accept exactly non-null pointers whose pointee m accepts: " + bad)
        except Unknown as u:
            ctx.ob("C10.d", "trompeloeil::ptr_deref::matches", None, pattern=fn.pat, unit=tu.name, inst=fn.q,
                   detail="cannot interpret: %s" % u)


def c10e(ctx, tu):
    spec = {"any_of_checker": any, "all_of_checker": all, "none_of_checker": lambda xs: not any(xs)}
    seen_arity = {}
    for name, f in spec.items():
        for fn in tu.find("trompeloeil::impl::" + name + "::operator()"):
            k = len(fn.rec["params"]) - 1
            if k < 1 or k > 4:
                continue
            seen_arity.setdefault(name, set()).add(k)
            try:
                bad = None
                for vals in product({str(i): [False, True] for i in range(1, k + 1)}):
                    per = {i: vals[str(i)] for i in range(1, k + 1)}
                    o = MatchesOracle(False, True, per_param=per)
                    it = Interp(fn, o)
                    res = it.run()
                    if res[0] != "return":
                        raise Unknown("no return")
                    want = f([per[i] for i in range(1, k + 1)])
                    if bool(res[1]) != want:
                        bad = "operands accept %s -> %s" % ([per[i] for i in range(1, k + 1)], bool(res[1]))
                ctx.ob("C10.e", "trompeloeil::impl::" + name, bad is None, pattern=fn.pat, unit=tu.name, inst=fn.q,
                       detail="" if bad is None else "%s with %d operands: %s" % (name.replace("_checker", ""), k, bad))
            except Unknown as u:
                ctx.ob("C10.e", "trompeloeil::impl::" + name, None, pattern=fn.pat, unit=tu.name, inst=fn.q,
                       detail="cannot interpret: %s" % u)
    return seen_arity


def c10f(ctx, tu):
    for fn in tu.find("trompeloeil::impl::member_is_matcher::operator()"):
        rets = [e.get("x") for b, e in fn.events() if e["e"] == "return"]
        ok = len(rets) == 1 and lib.tree_name(rets[0]) == "trompeloeil::param_matches"
        if ok:
            a = rets[0][3]
            ok = a[0][:2] == ["param", 1] and "member_is_matcher" in str(a[1]) and "'param', 0" in str(a[1])
        ctx.ob("C10.f", "trompeloeil::impl::member_is_matcher::operator()", ok, pattern=fn.pat, unit=tu.name, inst=fn.q,
               detail="" if ok else "MEMBER_IS(&T::m, c) must be: c matches the member m of the actual value")


def c10g(ctx, tu):
    for fn in tu.find(L + "regex_check::operator()"):
        try:
            bad = None
            for nonnull in (True, False):
                for found in (True, False):
                    o = Oracle(calls={L + "regex_check::string_helper::operator bool": nonnull,
                                      "std::regex_search": found,
                                      L + "regex_check::string_helper::begin": ("ptr", "b"),
                                      L + "regex_check::string_helper::end": ("ptr", "e")},
                               params={0: ("obj", "str"), 1: ("obj", "t")},
                               members={L + "regex_check::re": ("obj", "re"), L + "regex_check::match_type": 0})
                    r = bool(ret_value(fn, o))
                    if r != (nonnull and found):
                        bad = "string %s, regex %s -> %s" % ("non-null" if nonnull else "null", "found" if found else "not found", r)
            # the search runs over the whole string [begin, end) with the stored regex and flags
            s = str([e for b, e in fn.events() if e["e"] == "return"])
            if not all(x in s for x in ("string_helper::begin", "string_helper::end", "regex_check::re", "regex_check::match_type")):
                bad = bad or "regex_search must be applied to [begin, end) of the string with the stored regex and flags"
            ctx.ob("C10.g", L + "regex_check::operator()", bad is None, pattern=fn.pat, unit=tu.name, inst=fn.q,
                   detail="" if bad is None else "re() must accept exactly non-null strings in which the regex is found: " + bad)
        except Unknown as u:
            ctx.ob("C10.g", L + "regex_check::operator()", None, pattern=fn.pat, unit=tu.name, detail="cannot interpret: %s" % u)
    # "present" = non-null, whatever the helper stores: the char const* constructor is interpreted for a null, an
    # empty and a non-empty string, and operator bool / begin / end are evaluated on the members it stored
    ctors = [f for f in tu.find(L + "regex_check::string_helper::string_helper")
             if f.rec["params"] and f.rec["params"][0]["t"] == "const char *"]
    for fn in tu.find(L + "regex_check::string_helper::operator bool"):
        try:
            bad = None
            if not ctors:
                raise Unknown("char const* constructor of the string helper not found")
            for what, ptr, n in (("null", None, 0), ("empty non-null", 100, 0), ("non-empty", 100, 3)):
                def slen(t, it, n=n, ptr=ptr):
                    if ptr is None:
                        raise Unknown("strlen(nullptr)")
                    return n
                o = Oracle(params={0: ptr}, calls={"strlen": slen, "std::strlen": slen})
                it = Interp(ctors[0], o)
                it.run()
                mem = {erase(lv[1]): v for k, lv, v in it.effects if k == "store" and lv[0] == "member"}
                r = bool(ret_value(fn, Oracle(members=mem)))
                if r != (ptr is not None):
                    bad = "%s string -> %s" % (what, r)
                if ptr is not None and bad is None:
                    for acc, want in (("begin", ptr), ("end", ptr + n)):
                        for g in tu.find(L + "regex_check::string_helper::" + acc):
                            v = ret_value(g, Oracle(members=mem))
                            if v != want:
                                bad = "%s() of a %s string at %d is %r" % (acc, what, ptr, v)
            ctx.ob("C10.g", L + "regex_check::string_helper::operator bool", bad is None, pattern=fn.pat, unit=tu.name,
                   detail="" if bad is None else "a string counts as present exactly when it is non-null (the empty "
                   "string is a string) and spans [s, s + strlen(s)): " + bad)
        except Unknown as u:
            ctx.ob("C10.g", L + "regex_check::string_helper::operator bool", None, pattern=fn.pat, unit=tu.name,
                   detail="cannot interpret: %s" % u)
    # char const* constructor: strlen only on the non-null edge; begin_ = s
    for fn in tu.find(L + "regex_check::string_helper::string_helper"):
        if not fn.rec["params"] or fn.rec["params"][0]["t"] != "const char *":
            continue
        sl = cfg.find_events(fn, lambda e: e["e"] == "call" and qe(e) in ("strlen", "std::strlen"))
        ok = bool(sl)
        if ok:
            guard = None
            from engine.auto import cond_shape
            for bid in fn.blocks:
                c = cfg.cond_of(fn, bid)
                if c is None:
                    continue
                t, pol = cond_shape(c)
                if isinstance(t, list) and t[:2] == ["b", "!="] and ["null"] in t[2:4]:
                    t = [x for x in t[2:4] if x != ["null"]][0]
                elif isinstance(t, list) and t[:2] == ["b", "=="] and ["null"] in t[2:4]:
                    t, pol = [x for x in t[2:4] if x != ["null"]][0], not pol
                if isinstance(t, list) and lib.strip_casts(t)[:2] == ["param", 0]:
                    guard = (bid, 0 if pol else 1)
            ok = guard is not None and all(cfg.edge_dominates(fn, guard, b) for b, _, _ in sl)
        inits = {erase(e["field"]): e.get("x") for b, e in fn.events() if e["e"] == "init" and "field" in e}
        ok = ok and any(lib.strip_casts(x)[:2] == ["param", 0] for x in inits.values() if isinstance(x, list))
        ctx.ob("C10.g", L + "regex_check::string_helper::string_helper(char const*)", ok, pattern=fn.pat, unit=tu.name,
               detail="" if ok else "the length of a C string may only be taken when the pointer is non-null")


def c10h(ctx, tu):
    from rules import C01
    C01.c01d(ctx, tu)
    # typed vs duck-typed: make_matcher passes the same predicate and operands for both kinds
    n = 0
    for fn in tu.find("trompeloeil::make_matcher"):
        rets = [e.get("x") for b, e in fn.events() if e["e"] == "return"]
        s = str(rets)
        ok = len(rets) == 1 and "'param', 0" in s and "'param', 1" in s
        np = len(fn.rec["params"])
        ok = ok and all(("'param', %d" % i) in s for i in range(np))
        n += 1
        ctx.ob("C10.h", "trompeloeil::make_matcher", ok, pattern=fn.pat, unit=tu.name, inst=fn.q,
               detail="" if ok else "make_matcher must hand predicate, printer and every operand, in order, to the matcher")
    return n


def c10j(ctx, tu):
    """Building a matcher from NAMED operands must leave those operands intact: the combinators and factories take
    forwarding references, and an operand that arrives as an lvalue (parameter type `T &` after reference collapsing)
    must be copied - never handed to std::move, which would gut the caller's matcher (its stored value becomes the
    moved-from one, so eq(v) no longer accepts exactly v)."""
    FACT = ("trompeloeil::operator!", "trompeloeil::operator*", "trompeloeil::any_of", "trompeloeil::all_of",
            "trompeloeil::none_of", "trompeloeil::make_matcher", "trompeloeil::eq", "trompeloeil::ne", "trompeloeil::lt",
            "trompeloeil::le", "trompeloeil::gt", "trompeloeil::ge")
    n = 0
    for fn in tu.fns.values():
        if not fn.has_body or not fn.is_lib or fn.qe not in FACT:
            continue
        lv = [i for i, p in enumerate(fn.rec.get("params") or ()) if p["t"].rstrip().endswith("&") and
              not p["t"].rstrip().endswith("&&")]
        if not lv:
            continue
        n += 1
        moved = []
        for b, e in fn.events():
            if e["e"] == "call" and erase(e.get("q", "")) == "std::move":
                a = lib.strip_casts((e.get("args") or [None])[0])
                if isinstance(a, list) and a[:1] == ["param"] and a[1] in lv:
                    moved.append(fn.rec["params"][a[1]]["n"])
        ctx.ob("C10.j", fn.qe, not moved, pattern=fn.pat, unit=tu.name, inst=fn.q,
               detail="" if not moved else "%s moves from its lvalue operand `%s`: the caller's matcher is left with a "
               "moved-from value and no longer accepts what it accepted" % (fn.qe, moved[0]))
    return n


IDENTITY_WITNESS = r'''
#include <trompeloeil.hpp>
#include <string>
#include <cstdint>
namespace w {
// A plain value v used as an operand accepts x exactly when v == x.  param_matches_impl's plain-value branch
// evaluates  identity<U>(v) == x : for operand types that are equality comparable with the argument type the
// operand must reach the == UNCONVERTED (identity returns a reference to the very operand); only a type that
// cannot be compared as it is may be converted to the argument type first.
template <typename Param, typename Operand>
constexpr bool unconverted() {
  return std::is_same<decltype(::trompeloeil::identity<Param>(std::declval<Operand&>())), Operand&>::value &&
         std::is_same<decltype(::trompeloeil::identity<Param>(std::declval<const Operand&>())), const Operand&>::value;
}
#define W(P, O) static_assert(unconverted<P, O>(), "operand " #O " for a " #P " argument must be compared unconverted");
W(unsigned char, int) W(short, int) W(int, long long) W(std::int8_t, long) W(bool, int) W(int, unsigned)
W(unsigned, int) W(char, int) W(long, short) W(unsigned long long, int) W(int, int) W(double, int) W(int, double)
W(float, double) W(std::string, std::string) W(int*, int*) W(const int*, int*)
W(std::string, const char*)      // std::string == char const* exists: compared as it is
struct OnlyFromInt { explicit OnlyFromInt(int); };
bool operator==(OnlyFromInt const&, OnlyFromInt const&);
static_assert(std::is_same<decltype(::trompeloeil::identity<OnlyFromInt>(std::declval<const int&>())), OnlyFromInt>::value,
              "an operand that is not comparable as it is gets converted to the argument type");
}
int main() {}
'''


def c10i(ctx):
    from engine import facts, cc
    path = os.path.join(facts.gen_dir(), "c10_identity.cpp")
    with open(path, "w") as fh:
        fh.write(IDENTITY_WITNESS)
    cfgs = [("clang++", "c++17")] if ctx.tier == "quick" else [(c, s) for c in ("clang++", "g++") for s in ("c++14", "c++17", "c++20")]
    for (c, s), (rc, out) in zip(cfgs, cc.run_many([(cc.syntax_cmd(c, s, path), None) for c, s in cfgs])):
        first = ""
        if rc != 0:
            m = re.search(r"error: .*", out)
            first = m.group(0)[:300] if m else out[-400:]
        ctx.ob("C10.i", "plain-value operands reach operator== unconverted", rc == 0, pattern="verif:rules/C10.py",
               unit="%s@%s" % (c, s), detail="" if rc == 0 else "type witness failed: " + first)


def c10k(ctx, tu):
    """A matcher's verdict is a function of its operands and the value offered - not of what other matchers were
    created or asked before: the code under include/trompeloeil/matcher/ keeps no mutable static state (a cache, a
    counter).  Every function-local static there must be const."""
    n = 0
    for fn in tu.fns.values():
        if not fn.has_body or not fn.is_lib or "/matcher/" not in (fn.rec.get("loc") or ""):
            continue
        for b, e in fn.events():
            if e["e"] == "decl" and e.get("static"):
                n += 1
                t = (e.get("type") or "").strip()
                ok = t.startswith("const ") or t.endswith(" const") or "constexpr" in t
                ctx.ob("C10.k", fn.qe + "::" + str(e.get("name")), ok, pattern=short_loc(e.get("loc", "")), unit=tu.name,
                       inst=fn.q, detail="" if ok else "matcher code keeps mutable static state (`%s` of type %s): what a "
                       "matcher accepts then depends on the history of the process" % (e.get("name"), t))
    return n


def c10k_control(ctx):
    """C10.k expects zero instances on a healthy tree: a synthetic matcher function WITH a mutable static must be
    reported by the very same rule function on every run, otherwise the rule is blind (analysis broken)."""
    if getattr(ctx, "_c10k_control_done", False):
        return
    ctx._c10k_control_done = True
    from engine.facts import Fn, INCLUDE
    from engine.selfcheck import _TU
    loc = INCLUDE + "/trompeloeil/matcher/control.hpp:1:1"
    rec = {"k": "fn", "id": 0, "q": "trompeloeil::control_matcher", "loc": loc, "pat": loc, "std": False, "kind": "function",
           "params": [], "entry": 1, "exit": 0,
           "blocks": [{"id": 1, "ev": [{"e": "decl", "var": 0, "name": "cache", "type": "std::map<int, int>", "static": True,
                                        "loc": loc}], "succ": [0]},
                      {"id": 0, "ev": [], "succ": []}]}
    tu = _TU([rec])

    class Probe:
        bad = 0

        def ob(self, rule, what, ok, **kw):
            if ok is False and rule == "C10.k":
                Probe.bad += 1
    c10k(Probe(), tu)
    ctx.ob("C10.k.control", "positive control (a matcher function with a mutable static)", True if Probe.bad == 1 else None,
           pattern="verif:rules/C10.py", detail="" if Probe.bad == 1 else "the rule does not see a mutable static in matcher code")


def run(ctx):
    ctx.explanation = (
        "Every scalar matcher is a single return expression (or a fold); its truth table is obtained by "
        "interpreting the extracted expression on every valuation of a finite abstraction and compared with the "
        "mathematical predicate: C10.a the six comparison functors over ord(x,v) in {<,=,>}, their printers, their "
        "factories, and the operand order of predicate_matcher; C10.b _/ANY; C10.c !m; C10.d *m incl. no "
        "dereference of null; C10.e any_of/all_of/none_of for 1..3 operands as boolean functions of the "
        "per-operand results; C10.f MEMBER_IS; C10.g re() = non-null and regex_search over [begin,end), the "
        "string helper's notion of 'present' and its null guard; C10.h value-vs-matcher dispatch and "
        "make_matcher operand forwarding (same for typed and duck-typed).")
    ctx.assumptions = ["pack expansions give every operand the same expression, so agreement for N <= 3 is agreement for all N",
                       "the user type's own operators and std::regex_search are opaque"]
    ctx.not_decided = ["the meaning of the user type's own operators and of std::regex_search"]
    units = []
    total = 0
    ar = {}
    for tu in ctx.units(lambda n: n.startswith("match") or n.startswith("repo_ct")):
        total += c10a(ctx, tu)
        c10bc(ctx, tu)
        c10d(ctx, tu)
        for k, v in c10e(ctx, tu).items():
            ar.setdefault(k, set()).update(v)
        c10f(ctx, tu)
        c10g(ctx, tu)
        c10h(ctx, tu)
        nj = c10j(ctx, tu)
        c10k(ctx, tu)
        c10k_control(ctx)
        if tu.name.startswith("match") and nj < 4:
            ctx.ob("C10.j", "combinators with lvalue operands", None, unit=tu.name,
                   detail="only %d instantiation(s) with an lvalue operand in %s" % (nj, tu.name))
        units.append({"unit": tu.name, "functions": len(tu.fns)})
    c10i(ctx)
    ctx.floor("C10.a comparison functor instantiations", total, 7)
    for name in ("any_of_checker", "all_of_checker", "none_of_checker"):
        ctx.floor("C10.e arities of " + name, len(ar.get(name, ())), 3)
    ctx.extra["units"] = units
