"""C06 - is_completed() and sequence teardown reflect exactly the pending expectations."""
from engine import cfg, lib
from engine.auto import Explorer, fmt_trace, cond_shape
from engine.facts import erase, short_loc
from engine.lib import A, qe
from engine.table import Interp, Unknown
from rules.common import Oracle, ITER, loop_of, iter_env, LoopModel, iter_calls
from rules import protocol


def c06a(ctx, tu):
    for fn in tu.need(A["seq_is_completed"]):
        try:
            l = loop_of(fn, "trompeloeil::sequence_matcher::is_satisfied")
            if l is None:
                raise Unknown("loop over the pending list not found")
            lm = LoopModel(fn, l)
            bad = None
            for sat in (True, False):
              for opt in (True, False):
                # whether an entry is optional / required must not matter: every pending entry counts
                o = Oracle(calls=iter_calls("elem", {"trompeloeil::sequence_matcher::is_satisfied": sat,
                                                     "trompeloeil::sequence_matcher::is_optional": opt}),
                           any_member=True).descend_into(tu)
                res, it = lm.step(o, at="elem")
                want = ("stop", lm.entry) if sat else ("return", False)
                if res != want and bad is None:
                    bad = "pending expectation %s (%s): expected %s, code does %s" % (
                        "satisfied" if sat else "not satisfied", "optional" if opt else "required",
                        "look at the next one" if sat else "not completed", res)
            o = Oracle(calls=iter_calls("end", {"trompeloeil::sequence_matcher::is_satisfied": False,
                                                "trompeloeil::sequence_matcher::is_optional": False}),
                       any_member=True).descend_into(tu)
            res, it = lm.step(o, at="end")
            if res != ("return", True):
                bad = bad or "a sequence whose pending expectations are all satisfied (or that is empty) must be completed"
            # the walk is over the sequence's pending list
            FIELD = "trompeloeil::sequence_type::matchers"
            rng = any(isinstance(t, list) and t[:1] == ["member"] and erase(t[1]) == FIELD
                      for b, e in fn.events() for k in ("init", "recv", "args") for t in lib.subtrees(e.get(k)))
            if not rng:
                bad = bad or "is_completed does not range over the sequence's pending list"
            ctx.ob("C06.a", A["seq_is_completed"], bad is None, pattern=fn.pat, unit=tu.name,
                   detail="" if bad is None else "is_completed step table: " + bad)
        except Unknown as u:
            ctx.ob("C06.a", A["seq_is_completed"], None, pattern=fn.pat, unit=tu.name, detail="cannot interpret: %s" % u)
    # a handle's is_satisfied is its handler's
    for fn in tu.need("trompeloeil::sequence_matcher::is_satisfied"):
        rets = [e.get("x") for b, e in fn.events() if e["e"] == "return"]
        ok = len(rets) == 1 and lib.tree_name(rets[0]) == A["is_satisfied"] and "sequence_matcher::sequence_handler" in str(rets[0])
        ctx.ob("C06.a", "trompeloeil::sequence_matcher::is_satisfied", ok, pattern=fn.pat, unit=tu.name,
               detail="" if ok else "a sequence handle must report its own expectation's is_satisfied()")
    for fn in tu.need("trompeloeil::sequence::is_completed"):
        rets = [e.get("x") for b, e in fn.events() if e["e"] == "return"]
        ok = len(rets) == 1 and lib.tree_name(rets[0]) == A["seq_is_completed"] and "sequence::obj" in str(rets[0])
        ctx.ob("C06.d", "trompeloeil::sequence::is_completed", ok, pattern=fn.pat, unit=tu.name,
               detail="" if ok else "sequence::is_completed must forward to its own sequence_type")


def c06b(ctx, tu):
    """~sequence_type: while not empty: take the front, list it, unlink it; one non-fatal report iff
    at least one was listed."""
    def classify(fn, ev, env):
        k = ev["e"]
        if k == "decl" and any(lib.tree_name(c) == "trompeloeil::list::begin" for c in lib.tree_calls(ev.get("init"))):
            return ("sym", "begin")     # (C++14: wrapped in an elidable iterator copy)
        # boolean locals are tracked so that `if (touched)` is correlated with the loop having run
        if k == "decl" and isinstance(ev.get("init"), list) and ev["init"][:1] == ["bool"]:
            return ("sym", ("setvar", ev["var"], ev["init"][1]))
        if k == "assign" and ev.get("lhs", [None])[:1] == ["var"] and ev.get("rhs", [None])[:1] == ["bool"]:
            return ("sym", ("setvar", ev["lhs"][1], ev["rhs"][1]))
        if k != "call":
            return None
        n = qe(ev)
        if n == "trompeloeil::sequence_matcher::print_expectation":
            return ("sym", "print")
        if n == A["unlink"] or n == "trompeloeil::sequence_matcher::retire":
            return ("sym", "unlink")
        if n in (A["send_report"], A["send"]):
            return ("sym", "send_" + lib.severity_of(ev["args"][0], {}))
        if n == "trompeloeil::list::empty":
            return ("skip",)
        return None

    def edge(fn, cond):
        if lib.tree_name(cond) == "trompeloeil::list::empty":
            return "empty"
        if isinstance(cond, list) and cond[:1] == ["var"]:
            return "var:%d" % cond[1]
        return None

    def delta(q, sym):
        iters, st, sends, bad, vars_ = q
        r = delta0((iters, st, sends, bad), sym, dict(vars_))
        if r == "DEAD":
            return r
        (a, b, c, d), vs = r
        return (a, b, c, d, frozenset(vs.items()))

    def delta0(q, sym, vs):
        iters, st, sends, bad = q
        if isinstance(sym, tuple) and sym[0] == "setvar":
            vs[sym[1]] = sym[2]
            return q, vs
        if isinstance(sym, tuple) and sym[0] == "cond" and sym[1].startswith("var:"):
            v = int(sym[1][4:])
            if v in vs and vs[v] != sym[2]:
                return "DEAD"
            vs[v] = sym[2]
            return q, vs
        r = delta1(q, sym)
        return (q if r is None else r), vs

    def delta1(q, sym):
        iters, st, sends, bad = q
        if isinstance(sym, tuple) and sym[0] == "cond":
            if st not in ("start", "unlinked"):
                bad = bad or "an iteration ends without having listed and unlinked the front expectation"
            if sym[2] is False:
                return (1, "entered", sends, bad)
            return (iters, "start" if st == "start" else "unlinked", sends, bad)
        if sym == "begin":
            return (iters, "begun" if st == "entered" else st, sends, bad)
        if sym == "print":
            if st != "begun":
                bad = bad or "an expectation is listed that is not the current front of the pending list"
            return (iters, "printed", sends, bad)
        if sym == "unlink":
            if st != "printed":
                bad = bad or "an expectation is unlinked at sequence destruction without having been listed"
            return (iters, "unlinked", sends, bad)
        if sym == "send_nonfatal":
            return (iters, st, min(sends + 1, 2), bad)
        if sym in ("send_fatal", "send_?"):
            return (iters, st, sends, bad or "sequence destruction reports with a severity other than non-fatal")
        return None

    for fn in tu.need(A["dtor_sequence_type"]):
        ex = Explorer(tu, classify, edge=edge, delta=delta)
        ex._relevant = {fn.id}
        exits, terms = ex.explore(fn, (0, "start", 0, None, frozenset()))
        bad = None
        for (iters, st, sends, flag, _vars), tr in exits.items():
            if flag:
                bad = (flag, tr)
            elif iters and sends != 1:
                bad = ("destroying a sequence with pending expectations sends %d reports (must be exactly one)" % sends, tr)
            elif not iters and sends:
                bad = ("destroying an empty sequence sends a report", tr)
        # no early exit from the loop
        ls = cfg.loops(fn)
        if bad is None and (len(ls) != 1 or ls[0]["exit_edges"]):
            bad = ("the teardown loop can be left before the pending list is empty", None)
        ctx.ob("C06.b", A["dtor_sequence_type"], bad is None, pattern=fn.pat, unit=tu.name,
               detail="" if bad is None else bad[0],
               witness=None if bad is None or bad[1] is None else {"path": fmt_trace(bad[1])})


def c06c(ctx, tu):
    protocol.report(ctx, tu, lambda r: r == "C06.c")
    # on release: the intrusive node's destructor unlinks on every path (C14.d shares this)
    for fn in tu.need("trompeloeil::list_elem::~list_elem", 3):
        ul = cfg.find_events(fn, lambda e: e["e"] == "call" and qe(e) == A["unlink"])
        ok = bool(ul) and fn.exit not in cfg.reach(fn, fn.entry, avoid_blocks=set(b for b, _, _ in ul))
        ctx.ob("C06.c.release", "trompeloeil::list_elem::~list_elem", ok, pattern=fn.pat, unit=tu.name, inst=fn.q,
               detail="" if ok else "a released node must leave its list on every path")
    # retire() of a handle unlinks it; handler::retire retires every handle
    for fn in tu.need("trompeloeil::sequence_matcher::retire"):
        ok = any(e["e"] == "call" and qe(e) == A["unlink"] and e.get("recv") == ["this"] for b, e in fn.events())
        ctx.ob("C06.c.retire", "trompeloeil::sequence_matcher::retire", ok, pattern=fn.pat, unit=tu.name,
               detail="" if ok else "retiring a handle must unlink it from its sequence")
    for fn in tu.find("trompeloeil::sequence_matchers::retire"):
        if fn.rec["clsq"].endswith("<0>"):
            continue
        l = loop_of(fn, "trompeloeil::sequence_matcher::retire")
        ok = l is not None and not l["exit_edges"]
        ctx.ob("C06.c.retire", "trompeloeil::sequence_matchers::retire", ok, pattern=fn.pat, unit=tu.name, inst=fn.q,
               detail="" if ok else "retire must visit every handle of the expectation")
    for fn in tu.find("trompeloeil::sequence_matchers::retire_predecessors"):
        if fn.rec["clsq"].endswith("<0>"):
            continue
        l = loop_of(fn, "trompeloeil::sequence_matcher::retire_predecessors")
        ok = l is not None and not l["exit_edges"]
        ctx.ob("C05.d.3", "trompeloeil::sequence_matchers::retire_predecessors", ok, pattern=fn.pat, unit=tu.name,
               inst=fn.q, detail="" if ok else "retire_predecessors must visit every sequence of the expectation")


def run(ctx):
    ctx.explanation = (
        "C06.a decision table of one iteration of is_completed (pending expectation satisfied / not) plus the "
        "fall-through result, and data-flow of the handle's is_satisfied to its handler; C06.b automaton over "
        "~sequence_type: each iteration takes the current front, lists it, unlinks it; exactly one non-fatal "
        "report iff at least one iteration; no early exit; C06.c (protocol automaton) both consumers leave their "
        "sequences on saturation, a released node unlinks on every path, retire visits every handle; C06.d the "
        "public query forwards (its lock is C12).")
    ctx.assumptions = ["loop-step tables lift to the loop by the induction in DESIGN.md C06"]
    ctx.not_decided = []
    units = []
    for tu in ctx.units(lambda n: n.startswith("core") or n.startswith("repo_ct") or n.startswith("coro")):
        if not tu.find(A["seq_is_completed"]):
            continue
        c06a(ctx, tu)
        c06b(ctx, tu)
        c06c(ctx, tu)
        units.append({"unit": tu.name, "functions": len(tu.fns)})
    ctx.extra["units"] = units
