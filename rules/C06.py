"""C06 - is_completed() and sequence teardown reflect exactly the pending expectations."""
from engine import cfg, lib
from engine.auto import Explorer, fmt_trace, cond_shape
from engine.facts import erase, short_loc
from engine.lib import A, qe
from engine.table import Interp, Unknown
from rules.common import Oracle, ITER, loop_of, iter_env, LoopModel, iter_calls
from rules import protocol


def c06a(ctx, tu):
    for fn in tu.need(A["seq_is_completed"]):
        try:
            l = loop_of(fn, "trompeloeil::sequence_matcher::is_satisfied")
            if l is None:
                raise Unknown("loop over the pending list not found")
            lm = LoopModel(fn, l)
            bad = None
            for sat in (True, False):
              for opt in (True, False):
                # whether an entry is optional / required must not matter: every pending entry counts
                o = Oracle(calls=iter_calls("elem", {"trompeloeil::sequence_matcher::is_satisfied": sat,
                                                     "trompeloeil::sequence_matcher::is_optional": opt}),
                           any_member=True).descend_into(tu)
                res, it = lm.step(o, at="elem")
                want = ("stop", lm.entry) if sat else ("return", False)
                if res != want and bad is None:
                    bad = "pending expectation %s (%s): expected %s, code does %s" % (
                        "satisfied" if sat else "not satisfied", "optional" if opt else "required",
                        "look at the next one" if sat else "not completed", res)
            o = Oracle(calls=iter_calls("end", {"trompeloeil::sequence_matcher::is_satisfied": False,
                                                "trompeloeil::sequence_matcher::is_optional": False}),
                       any_member=True).descend_into(tu)
            res, it = lm.step(o, at="end")
            if res != ("return", True):
                bad = bad or "a sequence whose pending expectations are all satisfied (or that is empty) must be completed"
            # the walk is over the sequence's pending list
            FIELD = "trompeloeil::sequence_type::matchers"
            rng = any(isinstance(t, list) and t[:1] == ["member"] and erase(t[1]) == FIELD
                      for b, e in fn.events() for k in ("init", "recv", "args") for t in lib.subtrees(e.get(k)))
            if not rng:
                bad = bad or "is_completed does not range over the sequence's pending list"
            ctx.ob("C06.a", A["seq_is_completed"], bad is None, pattern=fn.pat, unit=tu.name,
                   detail="" if bad is None else "is_completed step table: " + bad)
        except Unknown as u:
            ctx.ob("C06.a", A["seq_is_completed"], None, pattern=fn.pat, unit=tu.name, detail="cannot interpret: %s" % u)
    # a handle's is_satisfied is its handler's
    HB = "trompeloeil::sequence_handler_base::"
    for fn in tu.need("trompeloeil::sequence_matcher::is_satisfied"):
        # the handle is satisfied exactly when its own expectation's handled count has reached the lower bound -
        # asked of the handler it refers to (is_satisfied(), or the count / bound accessors)
        why = None
        try:
            for c in (0, 1, 2):
                for lo in (0, 1, 2):
                    o = Oracle(calls={A["is_satisfied"]: c >= lo, HB + "get_calls": c, HB + "get_min_calls": lo}, any_member=True)
                    r = Interp(fn, o).run()
                    if r != ("return", c >= lo) and why is None:
                        why = "count %d, lower bound %d -> %s" % (c, lo, r)
            href = lib.peer_roles(tu).get("handler_ref", "trompeloeil::sequence_matcher::sequence_handler")
            if why is None and href not in erase(str([e for b, e in fn.events()])):
                why = "the answer does not come from the handle's own handler"
            ctx.ob("C06.a", "trompeloeil::sequence_matcher::is_satisfied", why is None, pattern=fn.pat, unit=tu.name,
                   detail="" if why is None else "a sequence handle must report its own expectation's is_satisfied(): " + why)
        except Unknown as u:
            ctx.ob("C06.a", "trompeloeil::sequence_matcher::is_satisfied", None, pattern=fn.pat, unit=tu.name,
                   detail="cannot interpret: %s" % u)
    for fn in tu.need("trompeloeil::sequence::is_completed"):
        rets = [e.get("x") for b, e in fn.events() if e["e"] == "return"]
        ok = len(rets) == 1 and lib.tree_name(rets[0]) == A["seq_is_completed"] and "sequence::obj" in str(rets[0])
        ctx.ob("C06.d", "trompeloeil::sequence::is_completed", ok, pattern=fn.pat, unit=tu.name,
               detail="" if ok else "sequence::is_completed must forward to its own sequence_type")


def c06b(ctx, tu):
    """~sequence_type on pending lists of 0..3 abstract elements (rules/common.ListSim): every pending expectation is
    listed once, in list order, and unlinked; exactly one non-fatal report is sent after the last one was listed iff
    the list was not empty; nothing else is reported.  The destructor's CFG is interpreted over the abstract list,
    so the loop may be spelled in any way (worklist over the front, do-while, iterator loop that advances before it
    unlinks)."""
    from rules.common import ListSim
    for fn in tu.need(A["dtor_sequence_type"]):
        bad = None
        try:
            import itertools
            cases = [(k, sat, opt) for k in (0, 1, 2) for sat in itertools.product((False, True), repeat=k)
                     for opt in itertools.product((False, True), repeat=k)] + [(3, (False,) * 3, (False,) * 3)]
            for k, sat, opt in cases:
                sim = ListSim(k)

                def pr(t, it, sim=sim):
                    sim.log.append(("print", sim.elem_of(t, it)))
                    return ("opaque", "os")

                def send(t, it, sim=sim):
                    a = t[3] if t[0] == "call" else t[4]
                    sim.log.append(("send", lib.severity_of(a[0], {})))
                    return None
                # whether a pending expectation is satisfied / optional must not matter: all of them are listed
                calls = sim.calls({"trompeloeil::sequence_matcher::print_expectation": pr,
                                   A["send_report"]: send, A["send"]: send,
                                   "trompeloeil::sequence_matcher::is_satisfied": lambda t, it, sim=sim, sat=sat: sat[sim.elem_of(t, it)],
                                   "trompeloeil::sequence_matcher::is_optional": lambda t, it, sim=sim, opt=opt: opt[sim.elem_of(t, it)]})
                o = Oracle(calls=calls, any_member=True, any_call=True, any_param=True)
                res = Interp(fn, o).run(max_steps=600)
                prints = [x[1] for x in sim.log if x[0] == "print"]
                unl = [x[1] for x in sim.log if x[0] == "unlink"]
                sends = [x[1] for x in sim.log if x[0] == "send"]
                why = None
                foreign = [x[1] for x in sim.log if x[0] == "retire_all"]
                if foreign:
                    why = "it retires expectation %s from EVERY sequence it is registered in; the destruction of one " \
                          "sequence must take the pending expectations out of that sequence only" % foreign
                elif prints != list(range(k)):
                    why = "it lists %s" % (prints,)
                elif sorted(unl) != list(range(k)) or sim.alive:
                    why = "it unlinks %s and leaves %s linked" % (unl, sim.alive)
                elif k == 0 and sends:
                    why = "destroying an empty sequence sends a report"
                elif k > 0 and sends != ["nonfatal"]:
                    why = "it sends %s (must be exactly one non-fatal report)" % (sends,)
                elif k > 0 and sim.log.index(("send", "nonfatal")) < max(i for i, x in enumerate(sim.log) if x[0] == "print"):
                    why = "the report is sent before every pending expectation has been listed"
                elif any(sim.log.index(("unlink", i)) < sim.log.index(("print", i)) for i in range(k)):
                    why = "an expectation is unlinked before it has been listed"
                if why and bad is None:
                    bad = "with %d pending expectation(s) (0..%d in list order; satisfied %s, optional %s) %s" % (
                        k, k - 1, list(sat), list(opt), why)
            ctx.ob("C06.b", A["dtor_sequence_type"], bad is None, pattern=fn.pat, unit=tu.name,
                   detail="" if bad is None else bad)
        except Unknown as u:
            # an interpretation that cannot continue because the code walks through an unlinked node is a verdict
            if "after its element was unlinked" in str(u):
                ctx.ob("C06.b", A["dtor_sequence_type"], False, pattern=fn.pat, unit=tu.name, detail=str(u))
            else:
                ctx.ob("C06.b", A["dtor_sequence_type"], None, pattern=fn.pat, unit=tu.name, detail="cannot interpret: %s" % u)


def c06c(ctx, tu):
    protocol.report(ctx, tu, lambda r: True)   # the whole step protocol is a premise of this property
    # on release: the intrusive node's destructor unlinks on every path (C14.d shares this)
    for fn in tu.need("trompeloeil::list_elem::~list_elem", 3):
        ul = cfg.find_events(fn, lambda e: e["e"] == "call" and qe(e) == A["unlink"])
        ok = bool(ul) and fn.exit not in cfg.reach(fn, fn.entry, avoid_blocks=set(b for b, _, _ in ul))
        ctx.ob("C06.c.release", "trompeloeil::list_elem::~list_elem", ok, pattern=fn.pat, unit=tu.name, inst=fn.q,
               detail="" if ok else "a released node must leave its list on every path")
    # retire() of a handle unlinks it; handler::retire retires every handle
    for fn in tu.need("trompeloeil::sequence_matcher::retire"):
        ok = any(e["e"] == "call" and qe(e) == A["unlink"] and e.get("recv") == ["this"] for b, e in fn.events())
        ctx.ob("C06.c.retire", "trompeloeil::sequence_matcher::retire", ok, pattern=fn.pat, unit=tu.name,
               detail="" if ok else "retiring a handle must unlink it from its sequence")
    for fn in tu.find("trompeloeil::sequence_matchers::retire"):
        if fn.rec["clsq"].endswith("<0>"):
            continue
        l = loop_of(fn, "trompeloeil::sequence_matcher::retire")
        if l is None:
            # no loop in sight (visitor helper, algorithm): the rule cannot see how the handles are visited
            ctx.ob("C06.c.retire", "trompeloeil::sequence_matchers::retire", None, pattern=fn.pat, unit=tu.name, inst=fn.q,
                   detail="the walk over the expectation's handles is not a loop this rule recognises")
            continue
        ok = l is not None and not l["exit_edges"]
        ctx.ob("C06.c.retire", "trompeloeil::sequence_matchers::retire", ok, pattern=fn.pat, unit=tu.name, inst=fn.q,
               detail="" if ok else "retire must visit every handle of the expectation")
    for fn in tu.find("trompeloeil::sequence_matchers::retire_predecessors"):
        if fn.rec["clsq"].endswith("<0>"):
            continue
        l = loop_of(fn, "trompeloeil::sequence_matcher::retire_predecessors")
        if l is None:
            ctx.ob("C05.d.3", "trompeloeil::sequence_matchers::retire_predecessors", None, pattern=fn.pat, unit=tu.name,
                   inst=fn.q, detail="the walk over the expectation's sequences is not a loop this rule recognises")
            continue
        ok = l is not None and not l["exit_edges"]
        ctx.ob("C05.d.3", "trompeloeil::sequence_matchers::retire_predecessors", ok, pattern=fn.pat, unit=tu.name,
               inst=fn.q, detail="" if ok else "retire_predecessors must visit every sequence of the expectation")


def every_handle(ctx, tu, rule, outer, inner, what):
    """The handler forwards a question / a step to the handle of EVERY sequence the expectation names - whatever the
    handle's cost, and without stopping after the first (one iteration of the walk, interpreted for every cost)."""
    from rules.common import LoopModel, iter_calls
    for fn in tu.find(outer):
        if fn.rec["clsq"].endswith("<0>"):
            continue
        l = loop_of(fn, inner)
        if l is not None and not any(e["e"] == "call" and qe(e) == inner for b, e in fn.events()):
            l = None          # some loop, but the handles are asked elsewhere (a visitor, a helper): not modelled
        if l is None:
            ctx.ob(rule, outer, None, pattern=fn.pat, unit=tu.name, inst=fn.q,
                   detail="the walk over the expectation's sequences is not a loop this rule recognises")
            continue
        try:
            lm = LoopModel(fn, l)
            why = None
            for cost in (0, 1, (1 << 32) - 1):
                seen = []

                def vm(t, it, seen=seen):
                    seen.append(1)
                    return None
                o = Oracle(calls=iter_calls("elem", {inner: vm, "trompeloeil::sequence_matcher::cost": cost}),
                           any_member=True, any_param=True, any_call=True)
                res, it = lm.step(o, at="elem")
                if (res != ("stop", lm.entry) or len(seen) != 1) and why is None:
                    why = "for a sequence in which the expectation has cost %s the step %s and reaches the handle %d time(s)" % (
                        "all-ones" if cost > 2 else cost, "goes on" if res[0] == "stop" else "ends the walk (%s)" % res[0], len(seen))
            if why is None and l["exit_edges"]:
                why = "the walk can be left before every sequence was visited"
            ctx.ob(rule, outer, why is None, pattern=fn.pat, unit=tu.name, inst=fn.q,
                   detail="" if why is None else what + ": " + why)
        except Unknown as u:
            ctx.ob(rule, outer, None, pattern=fn.pat, unit=tu.name, inst=fn.q, detail="cannot interpret: %s" % u)


def c05d5(ctx, tu):
    """an out-of-order step is reported once per violated sequence; a step that happened retires what was registered
    before it in EVERY sequence it names"""
    every_handle(ctx, tu, "C05.d.5", "trompeloeil::sequence_matchers::validate",
                 "trompeloeil::sequence_matcher::validate_match",
                 "every named sequence must be validated (one report per violated sequence)")
    every_handle(ctx, tu, "C05.d.6", "trompeloeil::sequence_matchers::retire_predecessors",
                 "trompeloeil::sequence_matcher::retire_predecessors",
                 "once a step has matched, nothing registered before it in ANY of its sequences can match again")


def run(ctx):
    ctx.explanation = (
        "C06.a decision table of one iteration of is_completed (pending expectation satisfied / not) plus the "
        "fall-through result, and data-flow of the handle's is_satisfied to its handler; C06.b automaton over "
        "~sequence_type: each iteration takes the current front, lists it, unlinks it; exactly one non-fatal "
        "report iff at least one iteration; no early exit; C06.c (protocol automaton) both consumers leave their "
        "sequences on saturation, a released node unlinks on every path, retire visits every handle; C06.d the "
        "public query forwards (its lock is C12).")
    ctx.assumptions = ["loop-step tables lift to the loop by the induction in DESIGN.md C06"]
    ctx.not_decided = []
    units = []
    for tu in ctx.units(lambda n: n.startswith("core") or n.startswith("repo_ct") or n.startswith("coro")):
        if not tu.find(A["seq_is_completed"]):
            continue
        c06a(ctx, tu)
        c06b(ctx, tu)
        c06c(ctx, tu)
        from rules import C03
        C03.c03b_carry(ctx, tu)    # "reached its lower bound" is read off the limits: IN_SEQUENCE must keep them
        units.append({"unit": tu.name, "functions": len(tu.fns)})
    ctx.extra["units"] = units
