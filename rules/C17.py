"""C17 - tracing: one record per accepted call to the innermost live tracer, with values."""
from engine import cfg, lib
from engine.auto import cond_shape
from engine.facts import erase, short_loc
from engine.lib import A, qe
from rules import C08

AG = "trompeloeil::trace_agent"


def executed(tu, fn, tracer_value, pred):
    """number of events satisfying pred that are executed when fn is interpreted with the agent's tracer pointer
    holding tracer_value (None = no tracer); None when the function cannot be interpreted"""
    from rules.common import Oracle
    from engine.table import Interp, Unknown
    hits = []

    def hook(e, it):
        if pred(e):
            hits.append(e)
        return None
    o = Oracle(members={AG + "::t": tracer_value}, any_member=True, any_call=True, any_param=True)
    try:
        Interp(fn, o).run(event_hook=hook)
    except Unknown:
        return None
    return len(hits)


def c17a(ctx, tu):
    """exactly one call site of the trace sink, in the agent's destructor, guarded by its tracer pointer"""
    sites = []
    for f in tu.fns.values():
        if not f.has_body or not f.is_lib:
            continue
        for b, e in f.events():
            if e["e"] == "call" and qe(e) == A["trace"]:
                sites.append((f, b, e))
    for f, b, e in sites:
        ok = f.qe == AG + "::~trace_agent"
        why = "%s emits a trace record; only the scope-bound agent's destructor may (one record per accepted call)" % f.qe
        if ok:
            r = lib.strip_casts(e.get("recv"))
            ok = isinstance(r, list) and r[:1] == ["member"] and erase(r[1]) == AG + "::t"
            why = "the record must go to the tracer the agent was constructed with"
            # ... exactly when that tracer is non-null (however the test is spelled)
            n_null = executed(tu, f, None, lambda x: x is e)
            n_live = executed(tu, f, ("obj", "tracer"), lambda x: x is e)
            ok = ok and n_null == 0 and n_live == 1
            if ok:
                a = str(e.get("args"))
                ok = "location::file" in a and "location::line" in a and "trace_agent::os" in a
                why = "the record must carry the expectation's file and line and the collected text"
                if not ok and "trace_agent::os" in a:
                    # the location may be kept as two scalar members: each must be initialised, in the agent's
                    # constructor, from the file / line of the location it was given
                    args = e.get("args") or []
                    srcs = []
                    for x in args[:2]:
                        x = lib.strip_casts(x)
                        if isinstance(x, list) and x[:1] == ["member"] and x[2] == ["this"]:
                            for c in tu.find(AG + "::trace_agent"):
                                for b2, i2 in c.events():
                                    if i2["e"] == "init" and i2.get("field") == x[1]:
                                        srcs.append(str(i2.get("x")))
                    ok = len(srcs) == 2 and "location::file" in srcs[0] and "location::line" in srcs[1] and \
                        all("'param', 0" in z for z in srcs)
        ctx.ob("C17.a", f.qe, ok, pattern=short_loc(e.get("loc", "")), unit=tu.name, detail="" if ok else why)
    return len(sites)


def c17b(ctx, tu):
    for fn in tu.need(A["dispatch"], 5):
        cand = C08.candidate_var(fn)
        decls = [(b["id"], e) for b, e in fn.events() if e["e"] == "decl" and e.get("type") == AG]
        ok = len(decls) == 1
        why = "the dispatch function must own exactly one trace agent (scope-bound: one record on every exit)"
        if ok:
            bid, d = decls[0]
            init = d.get("init")
            s = str(init)
            ok = lib.tree_name(init[3][2] if init[:1] == ["ctor"] and len(init[3]) == 3 else None) == A["tracer_obj"]
            if not ok and init[:1] == ["ctor"]:
                # ... or the agent's constructor reads it itself (it runs at this very point of the dispatch function)
                ctor = tu.fns.get(init[1])
                if ctor is not None and ctor.has_body:
                    def unbrace(x):
                        x = lib.strip_casts(x)
                        while isinstance(x, list) and x[:1] == ["initlist"] and len(x) > 2 and len(x[2]) == 1:
                            x = lib.strip_casts(x[2][0])
                        return x
                    ok = any(e["e"] == "init" and erase(e.get("field", "")) == AG + "::t" and
                             lib.tree_name(unbrace(e.get("x"))) == A["tracer_obj"] for b, e in ctor.events())
            why = "the agent must be given the tracer that is current at the time of the call (tracer_obj() read there)"
            if ok:
                ok = ("call_matcher_base" in s and "::loc" in s and "::name" in s and ("['var', %d," % cand) in s)
                why = "the agent must be given the selected expectation's location and text"
            if ok:
                # constructed on the accepted path only
                g = [b2 for b2 in fn.blocks if cfg.cond_of(fn, b2) is not None and
                     cond_shape(cfg.cond_of(fn, b2))[0][:2] == ["var", cand]]
                ok = bool(g) and cfg.edge_dominates(fn, (g[0], 0 if cond_shape(cfg.cond_of(fn, g[0]))[1] else 1), bid)
                why = "the agent must be created only once a candidate has been found"
            if ok:
                # trace_params precedes run_actions, both in the agent's scope
                order = []
                for e in fn.blocks[bid]["ev"]:
                    if e["e"] == "call":
                        n = qe(e)
                        if n == AG + "::trace_params":
                            order.append("params")
                        elif n == A["run_actions_base"]:
                            order.append("actions")
                        elif n == "trompeloeil::call_matcher_base::return_value":
                            order.append("return")
                            ok = ok and any(isinstance(a, list) and a[:2] == ["var", d["var"]] for a in e["args"])
                ok = ok and order == ["params", "actions", "return"]
                why = "parameters must be recorded before the actions run and the return handler must be given the agent"
            if ok:
                # the agent is destroyed on the exit of the accepted path
                dt = [e for b, e in fn.events() if e["e"] == "dtor" and e.get("kind") == "auto" and e.get("var") == d["var"]]
                ok = bool(dt)
                why = "the agent is not destroyed at scope exit"
        ctx.ob("C17.b", A["dispatch"], ok, pattern=fn.pat, unit=tu.name, inst=fn.q, detail="" if ok else why)
        # every handler of the dispatch function's try records the exception through the agent and rethrows it:
        # either the catch-all hands it to trace_exception (which tells std exceptions from others, C17.c), or the
        # dispatch function itself has a std::exception handler recording what() in front of a catch-all noting an
        # unknown exception
        catches = [b for b in fn.rec["blocks"] if b.get("catch")]
        why = None
        if not any(b["catch"] == "..." for b in catches):
            why = "an exception leaving an accepted call must be caught (catch-all), recorded by the agent and rethrown"
        rethrow_blocks = set(b["id"] for b in fn.rec["blocks"] if any(e["e"] == "throw" and e.get("rethrow") for e in b["ev"]))
        for cb in catches:
            region = cfg.reach(fn, cb["id"])
            if fn.exit in cfg.reach(fn, cb["id"], avoid_blocks=rethrow_blocks) and why is None:
                why = "the handler for %s does not rethrow on every path" % cb["catch"]
            evs = [e for bid in region for e in fn.blocks[bid]["ev"]]
            via_agent = any(e["e"] == "call" and qe(e) == AG + "::trace_exception" for e in evs)
            streams = [e for e in evs if e["e"] == "call" and e.get("op") == "<<" and "trace_agent::os" in str(e)]
            if cb["catch"] == "...":
                if not via_agent and not streams and why is None:
                    why = "the catch-all does not record the exception through the agent"
            elif "std::exception" in cb["catch"]:
                if not via_agent and not any(e["e"] == "call" and qe(e) == "std::exception::what" for e in evs) and why is None:
                    why = "the std::exception handler does not record what()"
            elif not via_agent and why is None:
                why = "the handler for %s does not record the exception through the agent" % cb["catch"]
        if why is None and not tu.find(AG + "::trace_exception"):
            # no classifying helper: the dispatch function must do the classification itself
            if not any("std::exception" in b["catch"] for b in catches):
                why = "exceptions derived from std::exception must be recorded with what()"
        ok = why is None
        ctx.ob("C17.b.exc", A["dispatch"], ok, pattern=fn.pat, unit=tu.name, inst=fn.q,
               detail="" if ok else (why or "an exception leaving an accepted call must be recorded by the agent and rethrown"))
        # ... and everything that can throw a user exception while the agent is alive - the actions (side effects,
        # THROW) and the return handler (RETURN expression) - runs inside that try block
        tries = {t["id"]: t for t in fn.rec.get("tries", ())}
        catch_all = set(i for i, t in tries.items() if "..." in t["handlers"])
        outside = []
        n_user = 0
        for b, e in fn.events():
            if e["e"] == "call" and qe(e) in (A["run_actions_base"], "trompeloeil::call_matcher_base::return_value"):
                n_user += 1
                if not (set(e.get("try", ())) & catch_all):
                    outside.append(e)
        ok = n_user >= 2 and not outside
        ctx.ob("C17.b.exc.scope", A["dispatch"], ok, pattern=fn.pat, unit=tu.name, inst=fn.q,
               detail="" if ok else ("%s is called outside the try block whose catch-all records the exception: an "
                                     "exception thrown there leaves the trace record without its exception note (at %s)"
                                     % (qe(outside[0]), short_loc(outside[0].get("loc", ""))) if outside else
                                     "the actions / return handler calls were not found"))
    # return values pass through the agent
    for fn in tu.find("trompeloeil::return_handler_t::call"):
        rets = [e.get("x") for b, e in fn.events() if e["e"] == "return"]
        calls = [e for b, e in fn.events() if e["e"] == "call" and qe(e) == "trompeloeil::trace_return"]
        ok = len(calls) == 1 and calls[0]["args"][0][:2] == ["param", 0]
        if not calls:
            # the free helper may have been folded into the handler: a non-void result goes through the agent's own
            # trace_return, called on the agent the dispatch function handed in
            void = (fn.rec.get("ret") or "").strip() == "void"
            direct = [e for b, e in fn.events() if e["e"] == "call" and qe(e) == AG + "::trace_return" and
                      lib.resolve(fn, e.get("recv"))[:2] == ["param", 0]]
            ok = void or len(direct) == 1
        ctx.ob("C17.b.ret", "trompeloeil::return_handler_t::call", ok, pattern=fn.pat, unit=tu.name, inst=fn.q,
               detail="" if ok else "the return handler must route the returned value through the call's trace agent")
    for fn in tu.find("trompeloeil::trace_return"):
        void = fn.rec.get("ret") == "void"
        if void:
            continue
        rets = [e.get("x") for b, e in fn.events() if e["e"] == "return"]
        trs = [c for c in lib.tree_calls(rets[0])] if len(rets) == 1 else []
        trs = [c for c in trs if lib.tree_name(c) == AG + "::trace_return"]
        ok = len(trs) == 1 and "'param', 0" in str(trs[0][3])
        ctx.ob("C17.b.ret", "trompeloeil::trace_return", ok, pattern=fn.pat, unit=tu.name, inst=fn.q,
               detail="" if ok else "a non-void result must be recorded by (and returned through) the agent")


def c17b_value(ctx, tu):
    """the record carries the RETURNED value: where the agent prints its result parameter, that parameter has not yet
    been moved / forwarded from on any path (a value of class type would be printed in its moved-from state)"""
    n = 0
    for fn in tu.find(AG + "::trace_return"):
        if not fn.has_body or (fn.rec.get("ret") or "").strip() == "void" or not fn.rec.get("params"):
            continue
        pidx = 0

        def mentions(t):
            return any(isinstance(x, list) and x[:2] == ["param", pidx] for x in lib.subtrees(t))

        prints = cfg.find_events(fn, lambda e: e["e"] == "call" and (qe(e) == "trompeloeil::print" or e.get("op") == "<<")
                                 and any(mentions(a) and lib.tree_name(lib.strip_casts(a)) not in ("std::forward", "std::move")
                                         for a in (e.get("args") or [])))
        if not prints:
            continue
        n += 1
        moves = cfg.find_events(fn, lambda e: e["e"] == "call" and (erase(e.get("q") or "").split("<")[0] in ("std::forward", "std::move"))
                                and any(mentions(a) for a in (e.get("args") or [])))
        bad = None
        for pb, pi, pe in prints:
            for mb, mi, me in moves:
                before = (mb == pb and mi < pi) or (mb != pb and pb in cfg.reach(fn, mb))
                if before and bad is None:
                    bad = "the result is moved / forwarded from at %s and printed afterwards at %s" % (
                        short_loc(me.get("loc", "")), short_loc(pe.get("loc", "")))
        ctx.ob("C17.b.ret.value", AG + "::trace_return", bad is None, pattern=fn.pat, unit=tu.name, inst=fn.q,
               detail="" if bad is None else "the trace record must show the value the call returns: " + bad)
    return n


def c17c(ctx, tu):
    for fn in tu.find(AG + "::trace_exception"):
        if fn.rec.get("params"):
            # the dispatch function classifies (a handler per kind, C17.b.exc) and hands the caught std::exception
            # in: this recorder must note its what()
            ok = "std::exception" in fn.rec["params"][0]["t"] and \
                any(e["e"] == "call" and qe(e) == "std::exception::what" for b, e in fn.events())
            ctx.ob("C17.c", AG + "::trace_exception", ok, pattern=fn.pat, unit=tu.name,
                   detail="" if ok else "the recorder for a caught std::exception must note its what()")
            continue
        tries = [b for b in fn.rec["blocks"] if b.get("term", {}).get("kind") == "try"]
        ok = len(tries) == 1
        if ok:
            order = [fn.blocks[s].get("catch") for s in tries[0]["succ"] if s is not None]
            ok = len(order) == 2 and "std::exception" in (order[0] or "") and order[1] == "..."
            if ok:
                first = fn.blocks[tries[0]["succ"][0]]
                ok = any(e["e"] == "call" and qe(e) == "std::exception::what" for e in first["ev"])
        ctx.ob("C17.c", AG + "::trace_exception", ok, pattern=fn.pat, unit=tu.name,
               detail="" if ok else "exceptions derived from std::exception must be recorded with what() before the "
               "catch-all notes an unknown exception")


def c17d(ctx, tu):
    """tracer: saved on construction, restored on destruction; only set_tracer writes the current tracer"""
    for fn in tu.need("trompeloeil::tracer::tracer"):
        if fn.rec.get("special"):
            continue
        PREV = lib.peer_roles(tu).get("prev_tracer", "trompeloeil::tracer::previous")
        inits = [e for b, e in fn.events() if e["e"] == "init" and erase(e.get("field", "")) == PREV]
        ok = len(inits) == 1 and lib.tree_name(inits[0]["x"]) == A["set_tracer"] and inits[0]["x"][3] == [["this"]]
        ctx.ob("C17.d", "trompeloeil::tracer::tracer", ok, pattern=fn.pat, unit=tu.name,
               detail="" if ok else "a new tracer must install itself and remember the previously active one")
    for fn in tu.need("trompeloeil::tracer::~tracer"):
        calls = [e for b, e in fn.events() if e["e"] == "call" and qe(e) == A["set_tracer"]]
        a0 = calls[0]["args"][0] if len(calls) == 1 and calls[0].get("args") else None
        PREV = lib.peer_roles(tu).get("prev_tracer", "trompeloeil::tracer::previous")
        ok = isinstance(a0, list) and a0[:1] == ["member"] and erase(a0[1]) == PREV
        if not calls:
            # ... or stores it into the current-tracer object directly
            st = [e for b, e in fn.events() if e["e"] == "assign" and e.get("op") == "=" and
                  lib.tree_name(lib.resolve(fn, e.get("lhs"))) == A["tracer_obj"]]
            r0 = lib.strip_casts(st[0].get("rhs")) if len(st) == 1 else None
            ok = isinstance(r0, list) and r0[:1] == ["member"] and erase(r0[1]) == PREV and r0[2] == ["this"]
        ctx.ob("C17.d", "trompeloeil::tracer::~tracer", ok, pattern=fn.pat, unit=tu.name,
               detail="" if ok else "a dying tracer must put the previously active tracer (or none) back in effect")
    for fn in tu.need(A["set_tracer"]):
        # returns the old value, stores the new one (exchange(), or save / assign / return through any alias)
        from rules import C16
        ok, _why = C16.returns_previous(fn, "tracer_obj")
        ctx.ob("C17.d", A["set_tracer"], ok, pattern=fn.pat, unit=tu.name,
               detail="" if ok else "set_tracer must store the new tracer and return the one that was active before")
    # the current-tracer object is one per process, not one per thread
    lib.process_wide_state(ctx, tu, "C17.d.global", [A["tracer_obj"]])
    # who touches the current-tracer object
    for f in tu.fns.values():
        if not f.has_body or not f.is_lib:
            continue
        for b, e in f.events():
            if e["e"] == "call" and qe(e) == A["tracer_obj"]:
                # (a tracer's destructor may restore its predecessor itself; C17.d above decides what it stores)
                ok = f.qe in (A["set_tracer"], A["dispatch"], AG + "::trace_agent", "trompeloeil::tracer::~tracer")
                ctx.ob("C17.d.who", f.qe, ok, pattern=short_loc(e.get("loc", "")), unit=tu.name,
                       detail="" if ok else "%s accesses the current-tracer object; only set_tracer (write) and the "
                       "dispatch function / the agent it constructs (read at call time) may" % f.qe)
    for c in tu.cls_by_qe.get("trompeloeil::tracer", []):
        sp = c.get("special", {})
        ok = sp.get("copy_ctor", {}).get("status") == "deleted" and sp.get("copy_assign", {}).get("status") == "deleted"
        ctx.ob("C17.d", "trompeloeil::tracer copy operations", ok, pattern=short_loc(c.get("loc", "")), unit=tu.name,
               detail="" if ok else "tracers must not be copyable (a copy would save / restore the wrong predecessor)")


def c17e(ctx, tu):
    """the agent records only when a tracer is active"""
    for name in (AG + "::trace_params", AG + "::trace_return"):
        for fn in tu.find(name):
            is_stream = lambda e: e["e"] == "call" and (qe(e) in ("trompeloeil::stream_params", "trompeloeil::print") or
                                                        e.get("op") == "<<")
            streams = cfg.find_events(fn, is_stream)
            n_null = executed(tu, fn, None, is_stream)
            n_live = executed(tu, fn, ("obj", "tracer"), is_stream)
            ok = bool(streams) and n_null == 0 and bool(n_live)
            if name.endswith("trace_params"):
                ok = ok and any(qe(e) == "trompeloeil::stream_params" and e["args"][1][:2] == ["param", 0] for _, _, e in streams)
            ctx.ob("C17.e", name, ok, pattern=fn.pat, unit=tu.name, inst=fn.q,
                   detail="" if ok else "%s must record (all parameters / the value) exactly when a tracer is active" % name)


def c17f(ctx, tu):
    """each activation has its own agent: the record buffer and the call data are owned by the agent
    (by-value members), and no agent method keeps state in a static / global object.  Recursive mock calls
    from side effects create nested agents; shared state would let the inner record overwrite the outer."""
    for c in tu.cls_by_qe.get(AG, []):
        if c.get("incomplete"):
            continue
        bad = None
        for f in c.get("fields", ()):
            t = f["t"]
            if f["n"] == "t":
                continue   # the tracer it reports to (a borrow for the duration of the call)
            if t.replace(" ", "") in ("constchar*", "charconst*"):
                continue   # string literals / the expectation's text: static or expectation-owned storage
            if t.endswith("&") or t.endswith("*") or "shared_ptr" in t:
                bad = "member %s of the trace agent has type %s: the record of one call is not owned by that call's agent" % (f["n"], t)
        ctx.ob("C17.f", AG + " owns its record", bad is None, pattern=short_loc(c.get("loc", "")), unit=tu.name,
               detail="" if bad is None else bad)
    for f in tu.fns.values():
        if not f.has_body or erase(f.rec.get("clsq", "")) != AG:
            continue
        statics = [e for b, e in f.events() if e["e"] == "decl" and e.get("static")]
        gv = "'gvar'" in str([{k: v for k, v in e.items() if k != "loc"} for b, e in f.events()])
        ok = not statics and not gv
        ctx.ob("C17.f", f.qe, ok, pattern=f.pat, unit=tu.name, inst=f.q,
               detail="" if ok else "%s uses a static / global object: nested (recursive) calls would share it" % f.qe)


def run(ctx):
    ctx.explanation = (
        "C17.a who-may-call: the trace sink has exactly one call site, in the agent's destructor, on the edge where "
        "its tracer pointer is non-null, with the expectation's file/line and the collected text; C17.b the dispatch "
        "function owns exactly one agent, constructed on the accepted path from tracer_obj() read at that point and "
        "the candidate's loc/name; parameters are recorded before the actions, the return value flows through the "
        "agent, the catch-all records the exception and rethrows - a scope-bound local gives exactly one record on "
        "every exit, recursive calls included; C17.c exception handler order; C17.d tracer save/restore pairing, "
        "set_tracer exchange semantics, who touches the current-tracer object, tracers not copyable; C17.e recording "
        "is conditional on an active tracer.")
    ctx.assumptions = ["tracer lifetimes are nested (non-LIFO destruction is a known finding under C14)"]
    ctx.not_decided = ["text layout of the record"]
    n = 0
    units = []
    def want(n):
        return n.startswith("core") or n.startswith("repo_ct") or n.startswith("coro") or n == "cpp11"
    want.with_cpp11 = True    # the C++11 level installs a tracer through the library's own exchange()
    for tu in ctx.units(want):
        if not tu.find(A["dispatch"]):
            continue
        if tu.name == "cpp11":
            c17d(ctx, tu)
            units.append({"unit": tu.name, "functions": len(tu.fns)})
            continue
        n += c17a(ctx, tu)
        c17b(ctx, tu)
        c17c(ctx, tu)
        c17d(ctx, tu)
        c17b_value(ctx, tu)
        C08.c08h(ctx, tu, rule="C17.b.exc.escape")   # recording the exception must not replace it
        c17e(ctx, tu)
        c17f(ctx, tu)
        units.append({"unit": tu.name, "functions": len(tu.fns)})
    ctx.floor("C17.a trace sink call sites", n, 1)
    ctx.extra["units"] = units
