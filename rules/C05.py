"""C05 - IN_SEQUENCE: order is enforced and a sequence only ever moves forward."""
from engine import cfg, lib, table
from engine.auto import Explorer, fmt_trace, cond_shape
from engine.facts import erase, short_loc
from engine.lib import A, qe
from engine.table import Interp, Unknown
from rules import protocol

MAXU = (1 << 32) - 1


from rules.common import Oracle, ITER, loop_of, iter_env, LoopModel, iter_calls


# ------------------------------------------------------------------------------- C05.a
def c05a(ctx, tu):
    INT = ("unsigned int", "unsigned long", "int", "size_t", "const unsigned int")
    for fn in tu.need(A["seq_cost"]):
        try:
            l = loop_of(fn, "trompeloeil::sequence_matcher::is_satisfied")
            if l is None:
                raise Unknown("loop over the pending list not found")
            lm = LoopModel(fn, l)
            ints = [e["var"] for b, e in fn.events() if e["e"] == "decl" and e.get("type") in INT and
                    (lm.index is None or e["var"] != lm.index[0])]
            bad = None
            rows = []
            for is_m in (True, False):
                for sat in (True, False):
                    for k in (0, 1, 2):
                        o = Oracle(calls=iter_calls("elem", {"trompeloeil::sequence_matcher::is_satisfied": sat}),
                                   params={0: _h(fn, "cur") if is_m else _h(fn, "other")})
                        # every integral local visible at the loop entry holds the running position k
                        res, it = lm.step(o, {v: k for v in ints}, at="elem")
                        if is_m:
                            want = ("return", k)
                        elif not sat:
                            want = ("return", MAXU)
                        else:
                            want = ("stop", lm.entry)
                        got = res
                        ok = got == want
                        if ok and want[0] == "stop":
                            # position advanced by exactly one
                            vals = [it.env.get(v) for v in ints]
                            ok = (k + 1) in vals and k not in vals
                        rows.append({"elem_is_m": is_m, "elem_satisfied": sat, "k": k, "decision": list(got)})
                        if not ok and bad is None:
                            bad = "row (element is the asked handle=%s, element satisfied=%s, position=%d): expected %s, " \
                                  "code does %s" % (is_m, sat, k, describe(want, k), describe(got, k))
            # a handle that is not in the list: 'not callable' once the end is reached, whatever was counted
            for k in (0, 1, 2):
                o = Oracle(calls=iter_calls("end", {"trompeloeil::sequence_matcher::is_satisfied": True}),
                           params={0: _h(fn, "other")})
                res, it = lm.step(o, {v: k for v in ints}, at="end")
                if res != ("return", MAXU) and bad is None:
                    bad = "a handle that is not in the list must be 'not callable' (all-ones) after the loop; code does %s" \
                          % describe(res, k)
            # the position counter starts at 0: interpret the code before the loop
            o = Oracle(calls=iter_calls("elem", {"trompeloeil::sequence_matcher::is_satisfied": True}),
                       params={0: _h(fn, "other")}, any_member=True)
            it = Interp(fn, o)
            r0 = it.run(stop_blocks={lm.entry})
            if bad is None and (r0 != ("stop", lm.entry) or not ints or any(it.env.get(v) not in (0, None) for v in ints)
                                or all(it.env.get(v) is None for v in ints)):
                bad = "position counter is not initialised to 0"
            ctx.ob("C05.a", A["seq_cost"], bad is None, pattern=fn.pat, unit=tu.name,
                   detail="" if bad is None else "sequence cost step table: " + bad,
                   witness=None if bad is None else {"rows": rows})
            ctx.sample({"rule": "C05.a", "function": fn.q, "rows": rows[:4]})
        except Unknown as u:
            ctx.ob("C05.a", A["seq_cost"], None, pattern=fn.pat, unit=tu.name, detail="cannot interpret: %s" % u)


def describe(res, k):
    if res[0] == "return":
        if res[1] == MAXU:
            return "return 'not callable'"
        return "return %r" % (res[1],)
    if res[0] == "stop":
        return "go on to the next element"
    return str(res)


def init_and_exit(fn, l):
    # counter initialised to 0 before the loop; MAX returned after the loop
    inits = [e for b, e in fn.events() if e["e"] == "decl" and e.get("init") == ["int", 0]]
    if not inits:
        return False, "position counter is not initialised to 0"
    after = l["after"]
    rets = cfg.events_in_blocks(fn, cfg.reach(fn, after), lambda e: e["e"] == "return")
    if not rets or any(e.get("x") != ["int", "max", 32] for _, _, e in rets):
        return False, "a handle that is not in the list must be 'not callable' (all-ones) after the loop"
    return True, ""


# ------------------------------------------------------------------------------- C05.b
def _h(fn, which):
    """the value of the handle parameter: sequence_type's members take the handle by pointer or by reference"""
    ps = fn.rec.get("params") or []
    t = (ps[0]["t"] if ps else "").rstrip()
    return ("elem", which) if t.endswith("&") else ("ptr", ("elem", which))


def c05b(ctx, tu):
    n = 0
    for fn in tu.find("trompeloeil::sequence_matchers::order"):
        n += 1
        try:
            if not fn.rec["clsq"].endswith("<0>"):
                l = loop_of(fn, "trompeloeil::sequence_matcher::cost")
                if l is None:
                    raise Unknown("loop over the handles not found")
                lm = LoopModel(fn, l)
                cands = [e["var"] for b, e in fn.events() if e["e"] == "decl" and e.get("init") == ["int", 0] and
                         (lm.index is None or e["var"] != lm.index[0])]
                if len(cands) != 1:
                    raise Unknown("running maximum (one local initialised to 0) not identified")
                hv = cands[0]
                bad = None
                for c in (0, 1, 2, MAXU):
                    for h in (0, 1, 2, MAXU):
                        o = Oracle(calls=iter_calls("elem", {"trompeloeil::sequence_matcher::cost": c}), any_member=True)
                        res, it = lm.step(o, {hv: h}, at="elem")
                        if res != ("stop", lm.entry) or it.env.get(hv) != max(h, c):
                            bad = "step (cost=%s, highest so far=%s): expected highest=%s, code gives %s (%s)" % (
                                c, h, max(h, c), it.env.get(hv), res[0])
                            break
                    if bad:
                        break
                if bad is None:
                    for h in (0, 1, 2, MAXU):
                        o = Oracle(calls=iter_calls("end", {"trompeloeil::sequence_matcher::cost": 1}), any_member=True)
                        res, it = lm.step(o, {hv: h}, at="end")
                        if res != ("return", h):
                            bad = "order() does not return the running maximum (after the last handle: %s, maximum %s)" % (res, h)
                            break
                ctx.ob("C05.b", "trompeloeil::sequence_matchers::order", bad is None, pattern=fn.pat, unit=tu.name,
                       inst=fn.q, detail="" if bad is None else "order() is the maximum cost over the named "
                       "sequences: " + bad)
            else:
                # unsequenced: constant 0
                v = table.eval_return_expr(fn, Oracle())
                ctx.ob("C05.b", "trompeloeil::sequence_matchers<0>::order", v == 0, pattern=fn.pat, unit=tu.name,
                       detail="" if v == 0 else "an unsequenced expectation must have order 0")
        except Unknown as u:
            ctx.ob("C05.b", "trompeloeil::sequence_matchers::order", None, pattern=fn.pat, unit=tu.name,
                   detail="cannot interpret %s: %s" % (fn.q, u))
    for fn in tu.find("trompeloeil::sequence_handler::can_be_called"):
        n += 1
        try:
            bad = None
            uses_order = any(e["e"] == "call" and (qe(e) or "").endswith("::order") for b, e in fn.events())
            if not uses_order:
                # no maximum is formed: the handles are asked one by one - callable iff no handle is blocked
                if fn.rec["clsq"].endswith("<0>"):
                    v = table.eval_return_expr(fn, Oracle())
                    ctx.ob("C05.b", "trompeloeil::sequence_handler<0>::can_be_called", bool(v) is True, pattern=fn.pat,
                           unit=tu.name, inst=fn.q, detail="" if v else "an unsequenced expectation can always be called")
                    continue
                l = loop_of(fn, "trompeloeil::sequence_matcher::cost")
                if l is None:
                    raise Unknown("neither order() nor a walk over the handles' costs")
                lm = LoopModel(fn, l)
                for c in (0, 1, 7, MAXU):
                    o = Oracle(calls=iter_calls("elem", {"trompeloeil::sequence_matcher::cost": c}), any_member=True)
                    res, it = lm.step(o, at="elem")
                    want = ("return", False) if c == MAXU else ("stop", lm.entry)
                    if (res[0], bool(res[1]) if res[0] == "return" else res[1]) != want and bad is None:
                        bad = "a handle of cost %s makes the walk %s" % ("all-ones" if c == MAXU else c, res)
                if bad is None:
                    o = Oracle(calls=iter_calls("end", {"trompeloeil::sequence_matcher::cost": 1}), any_member=True)
                    res, it = lm.step(o, at="end")
                    if res[0] != "return" or not res[1]:
                        bad = "after the last handle the result is %s" % (res,)
                ctx.ob("C05.b", "trompeloeil::sequence_handler::can_be_called", bad is None, pattern=fn.pat, unit=tu.name,
                       inst=fn.q, detail="" if bad is None else "can_be_called() is false exactly when some named sequence "
                       "blocks the expectation: " + bad)
                continue
            for v in (0, 1, 7, MAXU):
                o = Oracle(calls={"trompeloeil::sequence_handler::order": v, "trompeloeil::sequence_matchers::order": v})
                r = table.eval_return_expr(fn, o)
                if bool(r) != (v != MAXU):
                    bad = "can_be_called() with order()=%s yields %s" % ("all-ones" if v == MAXU else v, r)
            ctx.ob("C05.b", "trompeloeil::sequence_handler::can_be_called", bad is None, pattern=fn.pat, unit=tu.name,
                   inst=fn.q, detail="" if bad is None else bad)
        except Unknown as u:
            ctx.ob("C05.b", "trompeloeil::sequence_handler::can_be_called", None, pattern=fn.pat, unit=tu.name,
                   detail="cannot interpret: %s" % u)
    # unsequenced validate does nothing
    for fn in tu.find("trompeloeil::sequence_matchers::validate"):
        if fn.rec["clsq"].endswith("<0>"):
            evs = [e for b, e in fn.events() if e["e"] in ("call", "throw")]
            ctx.ob("C05.b", "trompeloeil::sequence_matchers<0>::validate", not evs, pattern=fn.pat, unit=tu.name,
                   detail="" if not evs else "validating an unsequenced expectation must do nothing")
    return n


# ------------------------------------------------------------------------------- C05.c
def c05c(ctx, tu):
    for fn in tu.need(A["seq_retire_until"]):
        try:
            ls = cfg.loops(fn)
            if len(ls) != 1:
                raise Unknown("expected one loop")
            lm = LoopModel(fn, ls[0])
            bad = None

            def oracle(at, front_is_m, sat, opt, eff):
                def retire(t, it):
                    eff.append(("retire", repr(it.ev(_recv(t)))))
                    return None
                return Oracle(calls=iter_calls(at, {
                    "trompeloeil::sequence_matcher::retire": retire,
                    "trompeloeil::list_elem::unlink": retire,
                    # whether the front is satisfied / optional must not matter: everything in front of the
                    # matched step is passed
                    "trompeloeil::sequence_matcher::is_satisfied": sat,
                    "trompeloeil::sequence_matcher::is_optional": opt}),
                    params={0: _h(fn, "cur") if front_is_m else _h(fn, "other")},
                    members={"trompeloeil::sequence_type::matchers": ("obj", "matchers")}).descend_into(tu)

            for front_is_m in (True, False):
              for sat in (True, False):
                for opt in (True, False):
                    eff = []
                    res, it = lm.step(oracle("elem", front_is_m, sat, opt, eff), at="elem")
                    if front_is_m:
                        ok = res[0] in ("return", "exit") and not eff
                        want = "stop without retiring it"
                    else:
                        ok = res[0] == "stop" and len(eff) == 1 and "cur" in eff[0][1]
                        want = "retire the front element and look again"
                    if not ok and bad is None:
                        bad = "front %s the matched handle (front satisfied=%s, optional=%s): expected to %s; code does %s " \
                              "with effects %s" % ("is" if front_is_m else "is not", sat, opt, want, res[0], eff)
            # an empty pending list ends the walk (nothing to retire, nothing to dereference)
            eff = []
            res, it = lm.step(oracle("end", False, True, False, eff), at="end")
            if (res[0] not in ("return", "exit") or eff) and bad is None:
                bad = "with an empty pending list the walk must end; code does %s with effects %s" % (res[0], eff)
            ctx.ob("C05.c", A["seq_retire_until"], bad is None, pattern=fn.pat, unit=tu.name,
                   detail="" if bad is None else "retire_until step table: " + bad)
        except Unknown as u:
            ctx.ob("C05.c", A["seq_retire_until"], None, pattern=fn.pat, unit=tu.name, detail="cannot interpret: %s" % u)


def _recv(t):
    return t[3] if t[0] == "mcall" else (t[4][0] if t[0] == "opcall" and t[4] else None)


# ------------------------------------------------------------------------------- C05.e
def c05e(ctx, tu):
    for fn in tu.need(A["seq_add_last"]):
        evs = [e for b, e in fn.events() if e["e"] == "call" and qe(e) in (A["push_back"], A["push_front"])]
        pn = fn.rec["params"][0]["n"]
        byref = fn.rec["params"][0]["t"].rstrip().endswith("&")
        want_arg = ["u", "&", ["param", 0, pn]] if byref else ["param", 0, pn]
        ok = len(evs) == 1 and qe(evs[0]) == A["push_back"] and [lib.strip_casts(a) for a in (evs[0].get("args") or [])] == [want_arg]
        ctx.ob("C05.e", A["seq_add_last"], ok, pattern=fn.pat, unit=tu.name,
               detail="" if ok else "registration must append the handle to the sequence's pending list")
    for fn in tu.need("trompeloeil::sequence_matcher::sequence_matcher"):
        if fn.rec.get("special"):
            continue
        order = []
        for b, e in fn.flow_events():
            if e["e"] == "decl" and "unique_lock<" in e.get("type", ""):
                order.append("lock")
            if e["e"] == "call" and qe(e) == A["seq_add_last"]:
                order.append("add" if e.get("args") in ([["this"]], [["u", "*", ["this"]]]) else "add?")
        ok = order == ["lock", "add"]
        if order == ["add"]:
            # the lock may be taken by add_last itself, around its insertion
            inner = []
            for g in tu.find(A["seq_add_last"]):
                seq = []
                for b, e in g.flow_events():
                    if e["e"] == "decl" and "unique_lock<" in e.get("type", ""):
                        seq.append("lock")
                    if e["e"] == "call" and qe(e) in (A["push_back"], A["push_front"]):
                        seq.append("push")
                inner.append(seq)
            ok = bool(inner) and all(x == ["lock", "push"] for x in inner)
            order = ["add", "(lock inside add_last)" if ok else "(no lock)"]
        ctx.ob("C05.e", "trompeloeil::sequence_matcher::sequence_matcher", ok, pattern=fn.pat, unit=tu.name,
               detail="" if ok else "the handle's constructor must register itself (add_last(this)) exactly once, "
               "under the lock; found " + str(order))


# ------------------------------------------------------------------------------- C05.f
def c05f(ctx, tu):
    def classify(fn, ev, env):
        if ev["e"] != "call":
            return None
        n = qe(ev)
        if n in (A["send_report"], A["send"]):
            a0 = ev["args"][0] if ev.get("args") else None
            return ("sym", "send_param" if isinstance(a0, list) and a0[:2] == ["param", 0] else "send_other")
        if n == A["seq_is_first"]:
            return ("skip",)
        return None

    def edge(fn, cond):
        n = lib.tree_name(cond)
        if n == A["seq_is_first"]:
            return "is_first"
        return None

    def delta(q, sym):
        first, sends, other = q
        if isinstance(sym, tuple) and sym[0] == "cond":
            return (sym[2], sends, other)
        if sym == "send_param":
            return (first, min(sends + 1, 3), other)
        if sym == "send_other":
            return (first, sends, True)
        return None

    for fn in tu.need(A["validate_match"]):
        ex = Explorer(tu, classify, edge=edge, delta=delta)
        exits, terms = ex.explore(fn, (None, 0, False))
        bad = None
        for (first, sends, other), tr in exits.items():
            if other:
                bad = ("the sequence-mismatch report does not use the severity it was given", tr)
            elif first is True and sends:
                bad = ("an expectation that is first in line is reported as a sequence mismatch", tr)
            elif first is not True and sends == 0:
                bad = ("an expectation that is not first in line passes validation without a report", tr)
            elif first is None:
                bad = ("validation does not test whether the expectation is first in line", tr)
        ctx.ob("C05.f", A["validate_match"], bad is None, pattern=fn.pat, unit=tu.name,
               detail="" if bad is None else bad[0],
               witness=None if bad is None else {"path": fmt_trace(bad[1])})
    # is_first: non-empty and front == m
    for fn in tu.need(A["seq_is_first"]):
        try:
            bad = None
            for empty in (True, False):
                for same in (True, False):
                    o = Oracle(calls=dict(ITER, **{"trompeloeil::list::empty": empty,
                                                   "trompeloeil::list::begin": ("iter", "b")}),
                               params={0: _h(fn, "cur") if same else _h(fn, "other")},
                               members={"trompeloeil::sequence_type::matchers": ("obj", "matchers")})
                    r = table.eval_return_expr(fn, o)
                    want = (not empty) and same
                    if bool(r) != want:
                        bad = "is_first with empty=%s, front-is-handle=%s yields %s" % (empty, same, r)
            ctx.ob("C05.f", A["seq_is_first"], bad is None, pattern=fn.pat, unit=tu.name,
                   detail="" if bad is None else bad)
        except Unknown as u:
            ctx.ob("C05.f", A["seq_is_first"], None, pattern=fn.pat, unit=tu.name, detail="cannot interpret: %s" % u)


def run(ctx):
    ctx.explanation = (
        "C05.a/b/c: decision tables of one iteration of the cost / order / retire_until loops, obtained by "
        "interpreting the extracted CFG of the loop body over every valuation of the atoms (element is the "
        "asked handle, element satisfied, position; cost vs running maximum; front is the matched handle), "
        "plus initial value and fall-through result; can_be_called as a truth table. C05.d: typestate "
        "automaton over call_matcher::run_actions and lifetime_monitor::notify (the two consumers of a "
        "sequence step): validation only on the not-callable edge and before every mutation, predecessors "
        "retired on every accepted path, no state change on a path that ends in a fatal report. C05.e "
        "registration appends, under the lock. C05.f validate_match reports iff not first in line, with the "
        "severity parameter.")
    ctx.assumptions = ["the loop-step tables lift to the loop result by the induction written in DESIGN.md C05",
                       "conforming reporter"]
    ctx.not_decided = ["composition over many sequences and long histories is the written induction over the checked steps"]
    units = []
    for tu in ctx.units(lambda n: n.startswith("core") or n.startswith("repo_ct") or n.startswith("coro")):
        if not tu.find(A["seq_cost"]):
            continue
        c05a(ctx, tu)
        c05b(ctx, tu)
        c05c(ctx, tu)
        protocol.report(ctx, tu, lambda r: True)   # the whole step protocol is a premise of this property
        from rules import C06
        C06.c05d5(ctx, tu)
        c05e(ctx, tu)
        c05f(ctx, tu)
        bad = protocol.monitor_limits_fixed(tu)
        ctx.ob("C05.d.3m", A["set_limits"], not bad, unit=tu.name,
               detail="" if not bad else "set_limits is applied to a lifetime monitor's handler in %s; notify's "
               "is_satisfied() guard around retire_predecessors is then no longer always true" % bad[0][0].qe)
        units.append({"unit": tu.name, "functions": len(tu.fns)})
    ctx.extra["units"] = units
