"""C11 - range matchers: is / starts / ends / includes / permutation / all / any / none."""
import os
import re

from engine import facts, cc, cfg, lib
from engine.auto import Explorer, fmt_trace, cond_shape
from engine.facts import erase, short_loc, CACHE
from engine.lib import qe
from engine.table import Interp, Unknown

I = "trompeloeil::impl::"


def tname(t):
    return erase(t[2]) if isinstance(t, list) and t and t[0] in ("call", "mcall", "opcall") else None


def lambdas_in(tu, fn):
    """call operators of the lambdas created in fn"""
    out = []
    classes = set(e.get("cls") for b, e in fn.events() if e["e"] == "lambda")
    if not hasattr(tu, "_lambda_ops"):
        idx = {}
        for f in tu.fns.values():
            if f.has_body and f.rec.get("lambda") and f.kind == "method":
                idx.setdefault(f.rec.get("cls"), []).append(f)
        tu._lambda_ops = idx
    for c in classes:
        out.extend(tu._lambda_ops.get(c, ()))   # generic lambdas: every instantiated call operator
    return out


def elem_predicate_ok(lam, comp_is_param):
    """lambda body is  return param_matches(<comparator>, std::ref(<element>))  with the matcher first"""
    rets = [e.get("x") for b, e in lam.events() if e["e"] == "return"]
    rets = [r for r in rets if r is not None and tname(r) == "trompeloeil::param_matches"]
    if len(rets) != 1:
        return False
    a = rets[0][3]
    if len(a) != 2 or not (tname(a[1]) or "").startswith("std::ref"):
        return False
    return True


# ------------------------------------------------------------------------------- C11.a
ALT_ALGO = {
    # after the length guard and the advance by size - n both sequences have the same length: the 4-iterator
    # std::equal is the same question as std::mismatch(...).second == end(elements)
    I + "ends_with_range_checker::operator()": ("std::equal", 5),
}
ALGO = {
    I + "range_all_of_checker::operator()": ("std::all_of", 3),
    I + "range_none_of_checker::operator()": ("std::none_of", 3),
    I + "range_any_of_checker::operator()": ("std::any_of", 3),
    I + "is_range_checker::operator()": ("std::equal", 5),
    I + "starts_with_range_checker::operator()": ("std::mismatch", 5),
    I + "ends_with_range_checker::operator()": ("std::mismatch", 5),
}


# quantifier written as a loop: element accepted -> (decision), rejected -> (decision), range exhausted -> result
LOOP_SPEC = {
    "std::all_of": ("continue", False, True),
    "std::none_of": (False, "continue", True),
    "std::any_of": (True, "continue", False),
}


def c11a_loop(ctx, tu, name, fn, algo):
    from rules.common import LoopModel, iter_calls, Oracle
    PM = "trompeloeil::param_matches"
    try:
        ls = cfg.loops(fn)
        if len(ls) != 1:
            raise Unknown("expected one loop over the range")
        lm = LoopModel(fn, ls[0])
        acc, rej, end = LOOP_SPEC[algo]
        why = None
        for holds in (True, False):
            o = Oracle(calls=iter_calls("elem", {PM: holds}), any_member=True, any_call=True, any_param=True).descend_into(tu)
            env = {}
            res, it = lm.step(o, _range_env(fn, "elem"), at="elem")
            want = acc if holds else rej
            got = "continue" if res[0] == "stop" else (res[1] if res[0] == "return" else res)
            if got != want and why is None:
                why = "an element that %s: expected %s, code does %s" % (
                    "is accepted" if holds else "is rejected", "go on" if want == "continue" else "result %s" % want, got)
        o = Oracle(calls=iter_calls("end", {PM: False}), any_member=True, any_call=True, any_param=True).descend_into(tu)
        res, it = lm.step(o, _range_env(fn, "end"), at="end")
        if res != ("return", end) and why is None:
            why = "when the range is exhausted the result must be %s, code does %s" % (end, res)
        # the element predicate: param_matches(comparator, std::ref(element))
        pm = [e for b, e in fn.events() if e["e"] == "call" and qe(e) == PM]
        if why is None and not (len(pm) == 1 and len(pm[0]["args"]) == 2 and (tname(pm[0]["args"][1]) or "").startswith("std::ref")):
            why = "the element predicate must be param_matches(comparator, std::ref(element))"
        ctx.ob("C11.a", name, why is None, pattern=fn.pat, unit=tu.name, inst=fn.q,
               detail="" if why is None else "%s as a loop: %s" % (name.split("::")[2], why))
    except Unknown as u:
        ctx.ob("C11.a", name, None, pattern=fn.pat, unit=tu.name, inst=fn.q, detail="cannot interpret: %s" % u)


def _range_env(fn, at):
    """iterator locals of a loop over a generic range (std::begin / std::end of the parameter): the moving one is
    at an element or at the end, the other is the end"""
    env = {}
    touched = set()
    for b, e in fn.events():
        if e["e"] == "incdec" and e.get("x", [None])[:1] == ["var"]:
            touched.add(e["x"][1])
        if e["e"] == "call" and e.get("op") in ("++",) and (e.get("recv") or [None])[:1] == ["var"]:
            touched.add(e["recv"][1])
    for b, e in fn.events():
        if e["e"] == "decl" and isinstance(e.get("init"), list) and \
                any((tname(c) or "") in ("std::begin", "std::end", "std::cbegin", "std::cend") or
                    (tname(c) or "").endswith("::begin") or (tname(c) or "").endswith("::end") for c in lib.tree_calls(e["init"])):
            env[e["var"]] = ("iter", ("cur" if at == "elem" else "end") if e["var"] in touched else "end")
    return env


def _search_form(tu, fn, ev, algo):
    """(ok, why) for `find_if[_not](begin, end, pred) ==/!= begin|end`, or None when the shape is another one"""
    import itertools
    it, e = range_vars(fn)
    a = ev.get("args") or []
    if len(a) != 3 or it is None or e is None:
        return None
    if ("['var', %d," % it) not in str(a[0]) or ("['var', %d," % e) not in str(a[1]):
        return None
    lams = lambdas_in(tu, fn)
    if not lams or not all(elem_predicate_ok(l, True) for l in lams):
        return False, "the element predicate must be param_matches(comparator, std::ref(element))"
    rets = [x.get("x") for b, x in fn.events() if x["e"] == "return" and x.get("x") is not None]
    if len(rets) != 1:
        return None
    r, pol = cond_shape(rets[0])
    if not (isinstance(r, list) and ((r[0] == "opcall" and r[3] in ("==", "!=")) or (r[0] == "b" and r[1] in ("==", "!=")))):
        return None
    op = r[3] if r[0] == "opcall" else r[1]
    args = r[4] if r[0] == "opcall" else r[2:4]
    sa = [str(x) for x in args]
    res_side = [i for i, x in enumerate(sa) if "find_if" in x or "__ret" in x]
    if len(res_side) != 1:
        return None
    other = sa[1 - res_side[0]]
    if ("['var', %d," % e) in other:
        against = "end"
    elif ("['var', %d," % it) in other:
        against = "begin"
    else:
        return None
    negsearch = qe(ev) == "std::find_if_not"
    spec = {"std::all_of": all, "std::any_of": any, "std::none_of": lambda v: not any(v)}[algo]
    for n in range(0, 4):
        for v in itertools.product((True, False), repeat=n):
            pos = next((i for i, x in enumerate(v) if (not x if negsearch else x)), n)
            eq = (pos == (n if against == "end" else 0))
            val = eq if op == "==" else not eq
            if not pol:
                val = not val
            if val != spec(v):
                return False, "with element verdicts %s the checker answers %s (%s compared with %s)" % (
                    list(v), val, qe(ev).split("::")[1], against)
    return True, ""


def c11a(ctx, tu):
    n = 0
    for name, (algo, nargs) in ALGO.items():
        for fn in tu.find(name):
            n += 1
            calls = [e for b, e in fn.events() if e["e"] == "call" and qe(e).startswith("std::") and
                     qe(e) in ("std::all_of", "std::none_of", "std::any_of", "std::equal", "std::mismatch", "std::find_if",
                               "std::is_permutation", "std::includes", "std::search")]
            # search form: find_if / find_if_not over the whole range, its result compared with begin or end.  What
            # that computes is decided for every vector of element verdicts up to length 3 against the quantifier.
            finds = [e for b, e in fn.events() if e["e"] == "call" and qe(e) in ("std::find_if", "std::find_if_not")]
            if algo in ("std::all_of", "std::none_of", "std::any_of") and len(finds) == 1 and len(calls) <= 1 and \
                    (not calls or qe(calls[0]) == "std::find_if"):
                verdict = _search_form(tu, fn, finds[0], algo)
                if verdict is not None:
                    ok, why = verdict
                    ctx.ob("C11.a", name, ok, pattern=fn.pat, unit=tu.name, inst=fn.q, detail="" if ok else why)
                    continue
                ctx.ob("C11.a", name, None, pattern=fn.pat, unit=tu.name, inst=fn.q,
                       detail="a search over the range whose use this rule does not recognise")
                continue
            if not calls and algo in LOOP_SPEC and cfg.loops(fn):
                c11a_loop(ctx, tu, name, fn, algo)
                continue
            if not calls:
                ctx.ob("C11.a", name, None, pattern=fn.pat, unit=tu.name, inst=fn.q,
                       detail="neither the standard algorithm nor a loop over the range was recognised")
                continue
            if len(calls) == 1 and name in ALT_ALGO and qe(calls[0]) == ALT_ALGO[name][0]:
                algo, nargs = ALT_ALGO[name]
            ok = len(calls) == 1 and qe(calls[0]) == algo and len(calls[0]["args"]) == nargs
            why = "%s must be implemented by %s over the whole range (%d-argument form)" % (name.split("::")[2], algo, nargs)
            if ok:
                lams = lambdas_in(tu, fn)
                ok = len(lams) >= 1 and all(elem_predicate_ok(l, True) for l in lams)
                why = "the element predicate must be param_matches(comparator, std::ref(element))"
            if ok and algo in ("std::equal", "std::mismatch"):
                a = calls[0]["args"]
                # (range begin, range end, elements begin, elements end): the range first, both ends given
                s = [str(x) for x in a[:4]]
                ok = ("'param', 0" in s[0] or "'var'" in s[0]) and "'param', 1" in s[2] and "'param', 1" in s[3] and \
                    "begin" in s[2] and "end" in s[3]
                why = "the algorithm must compare [range) with [begin(elements), end(elements)) - both ends bounded"
            if ok and algo == "std::mismatch":
                rets = [e.get("x") for b, e in fn.events() if e["e"] == "return" and e.get("x") is not None]
                final = [r for r in rets if "::second" in str(r)]
                ok = len(final) == 1 and ("'=='" in str(final[0])) and "'param', 1" in str(final[0]) and "end" in str(final[0])
                why = "prefix / suffix match holds exactly when the element list was exhausted (result.second == end(elements))"
            ctx.ob("C11.a", name, ok, pattern=fn.pat, unit=tu.name, inst=fn.q, detail="" if ok else why)
    return n


# ------------------------------------------------------------------------------- C11.b
def c11b(ctx, tu):
    n = 0
    # element-list checkers: the per-element lambda dereferences the range iterator only when it != end
    for name in (I + "is_elements_checker::operator()", I + "starts_with_elements_checker::operator()"):
        for fn in tu.find(name):
            for lam in lambdas_in(tu, fn):
                n += 1
                derefs = cfg.find_events(lam, lambda e: (e["e"] == "call" and e.get("op") in ("*", "++")) or e["e"] in ("deref", "incdec"))
                g = None
                for bid in lam.blocks:
                    c = cfg.cond_of(lam, bid)
                    if c is None:
                        continue
                    t, pol = cond_shape(c)
                    if (isinstance(t, list) and ((t[0] == "opcall" and t[3] in ("==", "!=")) or (t[0] == "b" and t[1] in ("==", "!=")))):
                        op = t[3] if t[0] == "opcall" else t[1]
                        at_end_edge = (0 if pol else 1) if op == "==" else (1 if pol else 0)
                        g = (bid, at_end_edge)
                ok = g is not None and bool(derefs)
                why = "the range iterator is dereferenced / advanced without having been compared with the end of the " \
                      "range (reads past a range shorter than the element list)"
                if ok:
                    bid, at_end_edge = g
                    ok = all(cfg.edge_dominates(lam, (bid, 1 - at_end_edge), b) for b, _, _ in derefs)
                    if ok:
                        # at the end the element does not match: the step returns false, or records false in the
                        # accumulator it shares with the fold (a captured boolean)
                        rets = [(b["id"], e.get("x")) for b, e in lam.events() if e["e"] == "return"]
                        fb = [b for b, x in rets if x == ["bool", False]]
                        fa = [b["id"] for b, e in lam.events() if e["e"] == "assign" and e.get("op") == "=" and
                              e.get("rhs") == ["bool", False]]
                        at_end = [b for b in fb + fa if cfg.edge_dominates(lam, (bid, at_end_edge), b)]
                        if not at_end:
                            ok = None if not fb and not fa else False
                            why = "at the end of the range the element step does not produce 'no match'"
                ctx.ob("C11.b", name + " element step", ok, pattern=lam.pat, unit=tu.name, inst=lam.q,
                       detail="" if ok else why)
                if ok and g is not None:
                    # every listed element consumes exactly one member of the range, whether it matches or not: from
                    # the not-at-end edge no path reaches the exit without advancing the range iterator
                    bid, at_end_edge = g
                    adv = set(b for b, _, e in derefs if (e["e"] == "incdec" and e.get("op") == "++") or
                              (e["e"] == "call" and e.get("op") == "++"))
                    nxt = lam.blocks[bid]["succ"][1 - at_end_edge]
                    ok2 = bool(adv) and nxt is not None and (nxt in adv or lam.exit not in cfg.reach(lam, nxt, avoid_blocks=adv))
                    ctx.ob("C11.b", name + " element step (one member per element)", ok2, pattern=lam.pat, unit=tu.name,
                           inst=lam.q, detail="" if ok2 else "a listed element that does not match leaves the range iterator "
                           "where it is: the next element is compared with the same member (a shorter range is accepted)")
            # the verdicts of the elements are conjoined: a mismatch is never forgotten
            accs = [e for b, e in fn.events() if e["e"] == "decl" and e.get("type") in ("bool", "_Bool") and e.get("init") == ["bool", True]]
            if len(accs) == 1:
                acc = accs[0]
                outer = [e for b, e in fn.events() if e["e"] == "assign" and isinstance(e.get("lhs"), list) and
                         e["lhs"][:2] == ["var", acc["var"]]]
                keeps = all(isinstance(e.get("rhs"), list) and e["rhs"][:2] == ["b", "&&"] and
                            lib.strip_casts(e["rhs"][2])[:2] == ["var", acc["var"]] for e in outer)
                if not outer or not keeps:
                    # ... or the element step itself does nothing once the accumulator is false
                    guarded = False
                    for lam in lambdas_in(tu, fn):
                        for bid in lam.blocks:
                            c = cfg.cond_of(lam, bid)
                            t0, _p = cond_shape(c) if c is not None else (None, True)
                            if isinstance(t0, list) and t0[:1] == ["var"] and len(t0) > 2 and t0[2] == acc.get("name"):
                                guarded = True
                    keeps = guarded
                ctx.ob("C11.b", name + " fold", keeps, pattern=fn.pat, unit=tu.name, inst=fn.q,
                       detail="" if keeps else "the result of an element overwrites the accumulated verdict: a mismatch of an "
                       "earlier element is forgotten when a later one matches")
    # ends_with: a range shorter than the element list does not match, otherwise the iterator is advanced to
    # size - n before anything is dereferenced.  Decided by interpreting the checker on every (size, n).
    class Advanced(Exception):
        pass

    for name in (I + "ends_with_checker::operator()", I + "ends_with_range_checker::operator()"):
        for fn in tu.find(name):
            n += 1
            k_fixed = len(fn.rec["params"]) - 1 if name.endswith("ends_with_checker::operator()") else None
            try:
                bad = None
                for size in (0, 1, 2, 3):
                    for nn in ((k_fixed,) if k_fixed is not None else (0, 1, 2, 3)):
                        seen = {}
                        def oracle(kind, t, itp, size=size, nn=nn, seen=seen):
                            if kind == "call":
                                nm = tname(t) or ""
                                if nm == "std::distance":
                                    return size
                                if nm.endswith("::size"):
                                    return nn
                                if nm == "std::advance":
                                    seen["adv"] = itp.ev(t[3][1])
                                    raise Advanced()
                                if nm in ("std::begin", "std::end") or nm.endswith("::begin") or nm.endswith("::end"):
                                    return ("iter", nm)
                                if t[0] == "ctor" or nm.startswith("std::forward"):
                                    return ("obj", "tmp")
                                seen.setdefault("other", nm)
                                return ("opaque", nm)
                            if kind == "param":
                                return ("obj", "p%d" % t[1])
                            raise Unknown(kind)
                        itp = Interp(fn, oracle)
                        try:
                            res = itp.run()
                        except Advanced:
                            res = ("advanced", seen.get("adv"))
                        if size < nn:
                            ok = res == ("return", False)
                            want = "no match"
                        else:
                            ok = res == ("advanced", size - nn)
                            want = "advance to position %d" % (size - nn)
                        if not ok and bad is None:
                            bad = "range of length %d, %d elements: expected %s; code does %s" % (size, nn, want, res)
                ctx.ob("C11.b", name, bad is None, pattern=fn.pat, unit=tu.name, inst=fn.q,
                       detail="" if bad is None else "suffix match length guard: " + bad)
            except Unknown as u:
                ctx.ob("C11.b", name, None, pattern=fn.pat, unit=tu.name, inst=fn.q, detail="cannot interpret: %s" % u)
    return n


# ------------------------------------------------------------------------------- C11.c
def eval_return(fn, ret_tree, it_var, e_var, at_end, empty, all_true_var=None, all_true=None):
    def oracle(kind, t, itp):
        if kind == "call":
            n = tname(t) or ""
            if n.endswith("::empty"):
                return empty
            if n.endswith("operator==") or n.endswith("operator!="):
                args = t[4] if t[0] == "opcall" else t[3]
                a, b = itp.ev(args[0]), itp.ev(args[1])
                return (a == b) if n.endswith("==") else (a != b)
            raise Unknown("call " + n)
        raise Unknown(kind)
    itp = Interp(fn, oracle)
    itp.env[e_var] = ("pos", "end")
    itp.env[it_var] = ("pos", "end") if at_end else ("pos", "mid")
    if all_true_var is not None:
        itp.env[all_true_var] = all_true
    return bool(itp.ev(ret_tree))


def range_vars(fn):
    """(it, e): locals initialised from begin(range) / end(range)"""
    it = e = None
    for b, ev in fn.events():
        if ev["e"] == "decl":
            init = str(ev.get("init"))
            if "std::begin" in init and "'param', 0" in init:
                it = ev["var"]
            if "std::end" in init and "'param', 0" in init:
                e = ev["var"]
    return it, e


def c11c(ctx, tu):
    spec = {
        I + "is_elements_checker::operator()": ("all & end", lambda a, end, emp: a and end),
        I + "starts_with_elements_checker::operator()": ("all", lambda a, end, emp: a),
        I + "is_permutation_elements_checker::operator()": ("end & none pending", lambda a, end, emp: end and emp),
        I + "is_permutation_range_checker::operator()": ("end & none pending", lambda a, end, emp: end and emp),
        I + "includes_elements_checker::operator()": ("none pending", lambda a, end, emp: emp),
        I + "includes_range_checker::operator()": ("none pending", lambda a, end, emp: emp),
    }
    n = 0
    for name, (text, f) in spec.items():
        for fn in tu.find(name):
            n += 1
            try:
                it, e = range_vars(fn)
                if it is None or e is None:
                    raise Unknown("range iterators not found")
                rets = [ev for b, ev in fn.events() if ev["e"] == "return" and ev.get("x") is not None]
                final = rets[0] if len(rets) == 1 else [r for r in rets if r["x"] != ["bool", False]][-1]
                at = None
                for b, ev in fn.events():
                    if ev["e"] == "decl" and ev.get("init") == ["bool", True] and ev.get("type") == "bool":
                        at = ev["var"]
                bad = None
                # when the walk over the range can only be left through its own condition (no break), the range is
                # exhausted whenever the final verdict is computed: rows with "not exhausted" cannot occur there
                main = [l for l in cfg.loops(fn) if ("['var', %d," % it) in str(cfg.cond_of(fn, l["head"])) or
                        ("['var', %d," % it) in str(cfg.cond_of(fn, l["entry"]))]
                ends = (True, False)
                if len(main) == 1 and not [x for x in main[0]["exit_edges"] if x[2] != fn.exit and
                                           not any(ev["e"] == "return" for ev in fn.blocks[x[2]]["ev"])]:
                    ends = (True,)
                for a in (True, False):
                    for end in ends:
                        for emp in (True, False):
                            r = eval_return(fn, final["x"], it, e, end, emp, at, a)
                            if r != bool(f(a, end, emp)):
                                bad = "all elements matched=%s, range exhausted=%s, no matcher pending=%s -> %s" % (a, end, emp, r)
                ctx.ob("C11.c", name, bad is None, pattern=fn.pat, unit=tu.name, inst=fn.q,
                       detail="" if bad is None else "the final verdict must be (%s): %s" % (text, bad))
            except (Unknown, IndexError) as u:
                ctx.ob("C11.c", name, None, pattern=fn.pat, unit=tu.name, inst=fn.q, detail="cannot interpret: %s" % u)
    return n


# ------------------------------------------------------------------------------- C11.d
def c11d(ctx, tu):
    """first-fit loops: one matcher is consumed per matched element (overwrite the found slot with the
    last, then pop), permutation stops at the first element nobody accepts, includes goes on"""
    n = 0
    for name in (I + "is_permutation_elements_checker::operator()", I + "is_permutation_range_checker::operator()",
                 I + "includes_elements_checker::operator()", I + "includes_range_checker::operator()"):
        perm = "permutation" in name
        for fn in tu.find(name):
            n += 1
            it, e = range_vars(fn)
            found_var = None
            for b, ev in fn.events():
                if ev["e"] == "decl" and any(tname(c) == "std::find_if" for c in lib.tree_calls(ev.get("init"))):
                    found_var = ev["var"]     # (C++14: wrapped in an elidable iterator copy)

            def classify(f, ev, env, it=it, found_var=found_var):
                k = ev["e"]
                if k == "incdec" and ev.get("x", [None, None])[:2] == ["var", it]:
                    return ("sym", "advance")
                if k != "call":
                    return None
                nme = qe(ev)
                if ev.get("op") == "++" and ev.get("recv", [None, None])[:2] == ["var", it]:
                    return ("sym", "advance")
                if nme == "std::find_if":
                    a = ev["args"]
                    ok = "begin" in str(a[0]) and "end" in str(a[1])
                    return ("sym", "find" if ok else "find_partial")
                if nme == "std::function::operator=" and ("['var', %d," % found_var) in str(ev.get("recv")):
                    return ("sym", "overwrite" if "::back" in str(ev.get("args")) else "overwrite_other")
                if nme == "std::vector::pop_back":
                    return ("sym", "pop")
                if nme in ("std::vector::erase", "std::vector::clear", "std::vector::push_back", "std::vector::emplace_back"):
                    return ("sym", "other_mutation" if nme != "std::vector::push_back" else "fill")
                return ("skip",)

            def edge(f, cond, it=it, found_var=found_var):
                t = cond
                if isinstance(t, list) and t and ((t[0] == "opcall" and t[3] in ("==", "!=")) or (t[0] == "b" and t[1] in ("==", "!="))):
                    op = t[3] if t[0] == "opcall" else t[1]
                    args = t[4] if t[0] == "opcall" else t[2:4]
                    s = str(args)
                    if ("['var', %d," % found_var) in s and "::end" in s:
                        return "found" + op
                    if ("['var', %d," % it) in s:
                        return "more" + op
                return None

            def delta(q, sym):
                phase, bad = q     # phase within one iteration
                if isinstance(sym, tuple) and sym[0] == "cond":
                    nm, val = sym[1], sym[2]
                    if nm.startswith("more"):
                        more = val if nm.endswith("!=") else not val
                        if phase in ("done", "miss"):
                            return None      # the final verdict expression re-tests the iterator after the loop
                        if phase not in ("start", "advanced"):
                            bad = bad or "an iteration ends without advancing to the next element of the range"
                        return ("iter" if more else "done", bad)
                    if nm.startswith("found"):
                        found = val if nm.endswith("!=") else not val
                        if phase != "searched":
                            bad = bad or "the found-test is not preceded by the search"
                        return ("hit" if found else "miss", bad)
                    return None
                if sym == "find":
                    return ("searched" if phase == "iter" else phase, bad or (None if phase == "iter" else "search outside the loop"))
                if sym == "find_partial":
                    return (phase, bad or "the search does not cover all pending matchers")
                if sym == "overwrite":
                    if phase != "hit":
                        bad = bad or "a pending matcher is overwritten although none accepted the element"
                    return ("overwritten", bad)
                if sym == "overwrite_other":
                    return (phase, bad or "the found matcher is not replaced by the LAST pending matcher")
                if sym == "pop":
                    if phase != "overwritten":
                        bad = bad or "a matcher is popped without the found slot having been overwritten by the last one first " \
                                     "(the wrong matcher is consumed)"
                    return ("consumed", bad)
                if sym == "other_mutation":
                    return (phase, bad or "the pending-matcher vector is modified by something other than swap-remove")
                if sym == "advance":
                    if perm:
                        if phase != "consumed":
                            bad = bad or "permutation: the range is advanced although no matcher was consumed for the element"
                    else:
                        if phase not in ("consumed", "miss"):
                            bad = bad or "includes: advancing in the wrong state (%s)" % phase
                    return ("advanced", bad)
                return None

            if it is None or found_var is None:
                ctx.ob("C11.d", name, None, pattern=fn.pat, unit=tu.name, inst=fn.q, detail="loop variables not recognised")
                continue
            has_pop = any(ev["e"] == "call" and qe(ev) == "std::vector::pop_back" for b, ev in fn.events())
            shrinks = any((ev["e"] == "incdec" and ev.get("op") == "--") or (ev["e"] == "call" and ev.get("op") == "--")
                          for b, ev in fn.events())
            if not has_pop and shrinks:
                # the pending matchers are kept in another representation (a shrinking sub-range, an index): the
                # swap-remove automaton below does not describe it
                ctx.ob("C11.d", name, None, pattern=fn.pat, unit=tu.name, inst=fn.q,
                       detail="the set of pending matchers is not maintained by swap-remove on a vector (pop_back): "
                              "representation not recognised")
                continue
            ex = Explorer(tu, classify, edge=edge, delta=delta)
            ex._relevant = {fn.id}
            exits, terms = ex.explore(fn, ("start", None))
            bad = None
            for (phase, flag), tr in exits.items():
                if flag:
                    bad = (flag, tr)
                elif perm and phase not in ("done", "miss", "start"):
                    bad = ("permutation: the loop is left in state '%s'" % phase, tr)
                elif not perm and phase not in ("done", "start"):
                    bad = ("includes: the loop is left before the range is exhausted (state '%s')" % phase, tr)
            ctx.ob("C11.d", name, bad is None, pattern=fn.pat, unit=tu.name, inst=fn.q,
                   detail="" if bad is None else bad[0],
                   witness=None if bad is None else {"path": fmt_trace(bad[1])[-14:]})
            # the search predicate applies the pending matcher to the CURRENT element
            lams = [l for l in lambdas_in(tu, fn)]
            okp = False
            for l in lams:
                rets = [ev.get("x") for b, ev in l.events() if ev["e"] == "return" and ev.get("x") is not None]
                if len(rets) == 1 and "std::function" in str(rets[0]) and "'param', 0" in str(rets[0]):
                    okp = True
            ctx.ob("C11.d.pred", name, okp, pattern=fn.pat, unit=tu.name, inst=fn.q,
                   detail="" if okp else "the search must ask each pending matcher about the current element")
    # make_predicate_matcher: matcher first, value second
    for fn in tu.find(I + "make_predicate_matcher"):
        lams = lambdas_in(tu, fn)
        if not lams:
            # a named function object instead of a closure: the call operators of the library classes it constructs
            types = set()
            for b, e in fn.events():
                for key in ("args", "x", "init"):
                    for t in lib.subtrees(e.get(key)):
                        if t[:1] in (["ctor"], ["initlist"]) and len(t) > 2 and isinstance(t[1 if t[0] == "initlist" else 2], str):
                            types.add(erase(t[1 if t[0] == "initlist" else 2]))
                if e["e"] == "ctor":
                    types.add(erase(e.get("type") or ""))
            for cq in types:
                if cq.startswith("trompeloeil::"):
                    lams += [f for f in tu.find(cq + "::operator()")]
        ok = len(lams) >= 1 and all(elem_predicate_ok(l, False) for l in lams)
        ctx.ob("C11.d.pred", I + "make_predicate_matcher", ok, pattern=fn.pat, unit=tu.name, inst=fn.q,
               detail="" if ok else "a pending matcher must be param_matches(matcher, std::ref(value))")
    return n


# ------------------------------------------------------------------------------- C11.e (elements fold)
def c11e(ctx, tu):
    """the element-list forms fold `all_true = all_true && match(element_k)` over every element, in order"""
    n = 0
    for name in (I + "is_elements_checker::operator()", I + "starts_with_elements_checker::operator()",
                 I + "ends_with_checker::operator()"):
        for fn in tu.find(name):
            n += 1
            k = len(fn.rec["params"]) - 1
            # the elements are offered to the matching step in their listed order, each exactly once: the element
            # operand of every matching-step call (the fold's `match(element)`, or param_matches in a recursive /
            # unrolled spelling that has been looked through) is parameter 1, 2, ... k
            idx = []
            for b, e in fn.flow_events():
                if e["e"] != "call":
                    continue
                nm = qe(e)
                is_step = nm == "trompeloeil::param_matches" or (e.get("op") == "()" and ("(lambda" in nm or "(anonymous class)" in nm))
                if not is_step:
                    continue
                m = sorted(set(int(x) for x in re.findall(r"\['param', (\d+),", str(e.get("args"))) if int(x) >= 1))
                if len(m) == 1:
                    idx.append(m[0])
            if not idx:
                ctx.ob("C11.e", name, None, pattern=fn.pat, unit=tu.name, inst=fn.q,
                       detail="the per-element matching step was not recognised")
                continue
            ok = idx == list(range(1, k + 1))
            ctx.ob("C11.e", name, ok, pattern=fn.pat, unit=tu.name, inst=fn.q,
                   detail="" if ok else "every listed element must be matched, in order, against the next member of the "
                   "range (found parameter indices %s for %d elements)" % (idx, k))
    return n


WITNESS = r'''
#include <trompeloeil.hpp>
#include <vector>
#include <list>
#include <type_traits>
namespace w {
using namespace trompeloeil::impl;
static_assert(std::is_same<store_as_t<int(&)[3]>, trompeloeil::mini_span<int>>::value, "C arrays are kept as a span, not copied");
static_assert(std::is_same<store_as_t<const int(&)[3]>, trompeloeil::mini_span<const int>>::value, "const C arrays");
static_assert(std::is_same<store_as_t<std::vector<int>>, std::vector<int>>::value, "containers are stored by value");
static_assert(is_range<std::vector<int>&>::value && is_range<std::list<int>>::value && is_range<int(&)[3]>::value, "ranges");
static_assert(!is_range<int>::value && !is_range<int*>::value, "non-ranges");
}
int main() {}
'''


def c11f(ctx):
    path = os.path.join(facts.gen_dir(), "c11_types.cpp")
    os.makedirs(os.path.dirname(path), exist_ok=True)
    with open(path, "w") as fh:
        fh.write(WITNESS)
    cfgs = [("clang++", "c++17")] if ctx.tier == "quick" else [(c, s) for c in ("clang++", "g++") for s in ("c++14", "c++17", "c++20")]
    for (c, s), (rc, out) in zip(cfgs, cc.run_many([(cc.syntax_cmd(c, s, path), None) for c, s in cfgs])):
        ctx.ob("C11.f", "store_as / is_range witnesses", rc == 0, pattern="verif:rules/C11.py", unit="%s@%s" % (c, s),
               detail="" if rc == 0 else "witness failed: " + out[-600:])


def run(ctx):
    ctx.explanation = (
        "C11.a algorithm identity: range_all_of / none_of / any_of call std::all_of / none_of / any_of, range_is(range) "
        "the 4-iterator std::equal, starts/ends_with(range) the 4-iterator std::mismatch with result.second == "
        "end(elements), each with the element predicate param_matches(comparator, std::ref(element)); C11.b bounded "
        "iteration: every dereference / advance of the range iterator in the element-list forms is dominated by the "
        "not-at-end edge, the suffix forms advance by size - n only on the size >= n edge; C11.c the final verdict "
        "expression of each checker as a truth table over (all matched, range exhausted, no matcher pending); C11.d "
        "typestate automaton over the four first-fit loops: search all pending matchers for the current element, on "
        "a hit overwrite the found slot with the last and pop (exactly one matcher consumed per matched element), "
        "permutation leaves at the first unmatched element, includes advances regardless, no other exit; C11.e the "
        "element-list forms fold over every listed element in order; C11.f store_as type witnesses (C arrays as span, "
        "containers copied).")
    ctx.assumptions = ["the standard algorithms behave as specified (empty-range behaviour of all_of / none_of / any_of follows)"]
    ctx.not_decided = ["which of several overlapping matchers the first fit picks after swap-removal has permuted the "
                       "pending vector, and anything about concrete multisets (the documented greedy one-pass first-fit "
                       "is what the checked loop steps implement)"]
    units = []
    counts = [0, 0, 0, 0, 0]
    for tu in ctx.units(lambda n: n.startswith("match") or n.startswith("repo_ct")):
        counts[0] += c11a(ctx, tu)
        counts[1] += c11b(ctx, tu)
        counts[2] += c11c(ctx, tu)
        counts[3] += c11d(ctx, tu)
        counts[4] += c11e(ctx, tu)
        units.append({"unit": tu.name, "functions": len(tu.fns)})
    ctx.floor("C11.a algorithm-identity checkers", counts[0], 6)
    ctx.floor("C11.b bounded-iteration sites", counts[1], 4)
    ctx.floor("C11.c verdict expressions", counts[2], 6)
    ctx.floor("C11.d first-fit loops", counts[3], 4)
    ctx.floor("C11.e element folds", counts[4], 3)
    c11f(ctx)
    ctx.extra["units"] = units
