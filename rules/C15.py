"""C15 - report severity (fatal from calls, non-fatal from destructors) and culprit data-flow."""
from engine import cfg, lib
from engine.auto import Explorer, fmt_trace
from engine.facts import erase, short_loc
from engine.lib import A, qe

NS = "trompeloeil::"


def classify_factory(tu, stop_at_dtor_frames=False):
    def classify(fn, ev, env):
        if ev["e"] != "call":
            return None
        n = qe(ev)
        if n == A["send_report"] or n == A["send"]:
            if env is None:
                return ("sym", ("send", "?", ""))
            sev = lib.severity_of(ev["args"][0], env) if ev.get("args") else "?"
            return ("sym", ("send", sev, ev.get("loc", "")))
        if lib.user_callback(tu, ev):
            return ("skip",)
        return None
    return classify


def delta_expect(want):
    def delta(q, sym):
        if isinstance(sym, tuple) and sym[0] == "send":
            if sym[1] != want and q is None:
                return ("bad", sym[1], sym[2])
        return None
    return delta


def c15a(ctx, tu):
    """severity per calling context"""
    n_ctx = 0
    # destructor-rooted contexts: non-fatal
    ex = Explorer(tu, classify_factory(tu), delta=delta_expect("nonfatal"))
    rel = ex.relevant()
    dtors = [f for f in tu.fns.values() if f.has_body and f.kind == "dtor" and f.is_lib and f.id in rel]
    for f in dtors:
        exits, terms = ex.explore(f, None)
        bad = [(q, tr) for q, tr in exits.items() if q is not None]
        n_ctx += 1
        if bad and bad[0][0][1] == "?":
            ctx.ob("C15.a", f.qe, None, pattern=f.pat, unit=tu.name, inst=f.q,
                   detail="the severity of a report reachable from %s is not a constant this rule can follow (at %s)"
                   % (f.qe, short_loc(bad[0][0][2])))
            continue
        ctx.ob("C15.a", f.qe, not bad, pattern=f.pat, unit=tu.name, inst=f.q,
               detail="" if not bad else "a report reachable from destructor %s is sent with severity %s "
               "(must be non-fatal: a conforming reporter throws on fatal) at %s"
               % (f.qe, bad[0][0][1], short_loc(bad[0][0][2])),
               witness=None if not bad else {"entry": f.q, "path": fmt_trace(bad[0][1])})
    # decommission is the mock-death operation, called from the destructor of the user's mock class
    for f in tu.find(A["decommission"]):
        exits, terms = ex.explore(f, None)
        bad = [(q, tr) for q, tr in exits.items() if q is not None]
        n_ctx += 1
        ctx.ob("C15.a", f.qe, not bad, pattern=f.pat, unit=tu.name, inst=f.q,
               detail="" if not bad else "mock destruction reports with severity %s" % bad[0][0][1],
               witness=None if not bad else {"entry": f.q, "path": fmt_trace(bad[0][1])})
    # call-rooted contexts: fatal
    ex2 = Explorer(tu, classify_factory(tu), delta=delta_expect("fatal"))
    for f in tu.need(A["dispatch"], 3):
        exits, terms = ex2.explore(f, None)
        bad = [(q, tr) for q, tr in exits.items() if q is not None]
        n_ctx += 1
        if bad and bad[0][0][1] == "?":
            ctx.ob("C15.a", f.qe, None, pattern=f.pat, unit=tu.name, inst=f.q,
                   detail="the severity of a report on the call path is not a constant this rule can follow (at %s)"
                   % short_loc(bad[0][0][2]))
            continue
        ctx.ob("C15.a", f.qe, not bad, pattern=f.pat, unit=tu.name, inst=f.q,
               detail="" if not bad else "a violation detected during a mock call is reported with severity %s "
               "(must be fatal) at %s" % (bad[0][0][1], short_loc(bad[0][0][2])),
               witness=None if not bad else {"entry": f.q, "path": fmt_trace(bad[0][1])})
    return n_ctx


def send_sites(tu):
    out = []
    for f in tu.fns.values():
        if not f.has_body or not f.is_lib or f.qe in (A["send_report"],):
            continue
        for b, e in f.events():
            if e["e"] == "call" and qe(e) in (A["send_report"], A["send"]):
                out.append((f, e))
    return out


def origins(tu, fn, tree, depth=0):
    """Where a value comes from: set of descriptors, following parameters to all callers' arguments."""
    t = lib.strip_casts(tree)
    if not isinstance(t, list) or not t:
        return {"?"}
    k = t[0]
    if k == "ctor":
        if not t[3]:
            return {"empty " + erase(t[2])}
        if len(t[3]) == 1:  # copy / conversion
            return origins(tu, fn, t[3][0], depth)
        return {"constructed " + erase(t[2])}
    if k == "member":
        base = "this" if t[2] == ["this"] else "other"
        return {"field %s of %s in %s" % (erase(t[1]), base, fn.qe)}
    if k == "param":
        if depth > 5:
            return {"?deep"}
        out = set()
        callers = tu.callers().get(fn.id, ())
        for o in tu.fns[fn.id].rec.get("overrides") or ():
            pass
        # also callers of overridden virtuals
        ids = [fn.id]
        work = list(fn.rec.get("overrides") or ())
        while work:
            x = work.pop()
            if x in ids:
                continue
            ids.append(x)
            if x in tu.fns:
                work.extend(tu.fns[x].rec.get("overrides") or ())
        seen_sites = 0
        for fid in ids:
            for (cf, b, e) in tu.callers().get(fid, ()):
                if fn.id not in tu.targets(e):
                    continue
                args = e.get("args") or []
                if t[1] < len(args):
                    seen_sites += 1
                    out |= origins(tu, cf, args[t[1]], depth + 1)
        if not seen_sites:
            out.add("param %s of %s (no caller in unit)" % (t[2], fn.qe))
        return out
    if k == "var":
        for b, e in fn.events():
            if e["e"] == "decl" and e["var"] == t[1]:
                return origins(tu, fn, e.get("init"), depth)
        return {"local " + t[2]}
    if k in ("call", "mcall", "opcall"):
        return {"result of " + erase(t[2])}
    if k == "str":
        return {"literal"}
    return {k}


LOC_FIELDS = {"trompeloeil::call_matcher_base::loc", "trompeloeil::lifetime_monitor::loc",
              "trompeloeil::sequence_matcher::exp_loc"}

# send site function -> what its location argument must be
LOC_SPEC = {
    A["no_match"]: "empty",                 # call-level report: the text lists each expectation with its loc
    A["report_forbidden_call"]: "expectation",
    A["report_unfulfilled"]: "expectation",
    A["validate_match"]: "expectation",
    A["dtor_sequence_type"]: "empty",       # lists each missing expectation with its loc in the text
    A["dtor_lifetime_monitor"]: "expectation",
    A["dtor_deathwatched"]: "empty",        # no expectation exists for an unexpected destruction
}


def c15b(ctx, tu):
    n = 0
    for f, e in send_sites(tu):
        spec = LOC_SPEC.get(f.qe)
        if spec is None and f.qe.rsplit("::", 1)[0] in ("trompeloeil::call_matcher", "trompeloeil::lifetime_monitor",
                                                        "trompeloeil::sequence_matcher", "trompeloeil::sequence_handler"):
            # a report sent from a member of an expectation-like object (a reporting helper merged into its
            # caller, or a new member): it is about that object
            spec = "expectation"
        n += 1
        if spec is None:
            ctx.ob("C15.b", f.qe, None, pattern=short_loc(e.get("loc", "")), unit=tu.name,
                   detail="report site in %s is not in the culprit table of rules/C15.py (new report site: "
                          "classify it)" % f.qe)
            continue
        args = e.get("args") or []
        if len(args) < 3:
            ctx.ob("C15.b", f.qe, None, detail="unexpected report call shape")
            continue
        org = origins(tu, f, args[1])
        if any(o.endswith("(no caller in unit)") for o in org):
            continue    # this unit does not contain the callers (an inline function nobody uses here)
        if any(o in ("oparam",) or o.startswith("?") for o in org):
            ctx.ob("C15.b", f.qe, None, pattern=short_loc(e.get("loc", "")), unit=tu.name, inst=f.q,
                   detail="the location argument comes through a capture / a chain this rule cannot follow: " + ", ".join(sorted(org)))
            continue
        if spec == "empty":
            ok = org == {"empty trompeloeil::location"}
            why = "location argument should be the empty location{}; it is " + ", ".join(sorted(org))
        else:
            ok = bool(org) and all(any(o.startswith("field " + lf + " of this") for lf in LOC_FIELDS) for o in org)
            why = ("location argument must be the reporting expectation's own loc field on every call chain; "
                   "it comes from: " + ", ".join(sorted(org)))
        ctx.ob("C15.b", f.qe, ok, pattern=short_loc(e.get("loc", "")), unit=tu.name, inst=f.q,
               detail="" if ok else why, witness=None if ok else {"origins": sorted(org)})
    # the text of a sequence-mismatch report names the matched expectation / destruction: the match_name
    # parameter of validate_match comes from the reporting object's own name on every call chain
    for f in tu.find(A["validate_match"]):
        idx = [i for i, p in enumerate(f.rec["params"]) if p["n"] == "match_name"]
        if not idx:
            ctx.ob("C15.b.name", A["validate_match"], None, pattern=f.pat, unit=tu.name, detail="parameter match_name not found")
            continue
        org = origins(tu, f, ["param", idx[0], "match_name"])
        if any(o.endswith("(no caller in unit)") for o in org):
            continue
        if any(o in ("oparam",) or o.startswith("?") for o in org):
            ctx.ob("C15.b.name", A["validate_match"], None, pattern=f.pat, unit=tu.name,
                   detail="the name comes through a capture / a chain this rule cannot follow")
            continue
        ok = bool(org) and all(o.startswith("field trompeloeil::call_matcher_base::name of this") or
                               o.startswith("field trompeloeil::lifetime_monitor::call_name of this") for o in org)
        streamed = any(e["e"] == "call" and e.get("op") == "<<" and ("'param', %d," % idx[0]) in str(e.get("args"))
                       for b, e in f.events())
        if not streamed:
            # ... or inside a local lambda of validate_match that captured it
            for b, e in f.events():
                if e["e"] == "lambda" and e.get("callop") in tu.fns:
                    lam = tu.fns[e["callop"]]
                    if any(x["e"] == "call" and x.get("op") == "<<" and ("'oparam', %d," % idx[0]) in str(x.get("args"))
                           for _, x in lam.events()):
                        streamed = True
        ctx.ob("C15.b.name", A["validate_match"], ok and streamed, pattern=f.pat, unit=tu.name,
               detail="" if ok and streamed else "a sequence-mismatch report must name the expectation (or destruction) that "
               "was matched out of order; the name comes from: " + ", ".join(sorted(org)))
    return n


def c15c(ctx, tu):
    """no-match report: all actual parameters; listing loops without early exit; saturated listing
    guarded by matches(); live listing only when no saturated match."""
    n = 0
    for f in tu.need(A["no_match"], 3):
        n += 1
        # (1) stream_params over the call's parameter pack
        sp = cfg.find_events(f, lambda e: e["e"] == "call" and qe(e) == "trompeloeil::stream_params"
                             and any(a[:1] == ["param"] for a in (e.get("args") or []) if isinstance(a, list)))
        ctx.ob("C15.c.params", A["no_match"], bool(sp), pattern=f.pat, unit=tu.name, inst=f.q,
               detail="" if sp else "the no-match report no longer prints the actual parameters (stream_params)")
        # (2) listing loops
        ls = cfg.loops(f)
        sat = live = None
        for l in ls:
            evs = cfg.events_in_blocks(f, l["body"], lambda e: e["e"] == "call")
            names = [qe(e) for _, _, e in evs]
            if "trompeloeil::call_matcher_base::report_signature" in names:
                sat = l
            if "trompeloeil::call_matcher_base::report_mismatch" in names:
                live = l
        if sat is None or live is None:
            ctx.ob("C15.c.loops", A["no_match"], None, pattern=f.pat, unit=tu.name,
                   detail="listing loops of the no-match report not recognised")
            continue
        for name, l in (("saturated", sat), ("live", live)):
            early = [x for x in l["exit_edges"]]
            ctx.ob("C15.c.loops", A["no_match"] + "/" + name, not early, pattern=short_loc(l["loc"]), unit=tu.name,
                   inst=f.q, detail="" if not early else "the %s-expectation listing loop of the no-match report "
                   "can be left early: not every expectation is listed" % name)
        # saturated entries are listed only when they match the call
        sig_ev = cfg.events_in_blocks(f, sat["body"], lambda e: e["e"] == "call" and
                                      qe(e) == "trompeloeil::call_matcher_base::report_signature")
        ok = False
        for bid, i, e in sig_ev:
            for b2 in sat["body"] | {sat["head"]}:
                c = cfg.cond_of(f, b2)
                if c is not None and lib.tree_name(lib_cond(c)[0]) == "trompeloeil::call_matcher_base::matches":
                    if cfg.edge_dominates(f, (b2, 0 if lib_cond(c)[1] else 1), bid):
                        ok = True
        ctx.ob("C15.c.satmatch", A["no_match"], ok, pattern=short_loc(sat["loc"]), unit=tu.name, inst=f.q,
               detail="" if ok else "saturated expectations are listed without testing that they match the call")
        # ... and EVERY saturated expectation is tested, and every one that matches is listed:
        # each iteration passes through the matches() test, and from its true edge every path back to
        # the loop head passes the print
        body_entry = f.blocks[sat["head"]]["succ"][0]
        mblocks = set(b2 for b2 in sat["body"] if cfg.cond_of(f, b2) is not None and
                      lib.tree_name(lib_cond(cfg.cond_of(f, b2))[0]) == "trompeloeil::call_matcher_base::matches")
        every_tested = bool(mblocks) and sat["head"] not in cfg.reach(f, body_entry, avoid_blocks=mblocks)
        every_listed = bool(mblocks) and bool(sig_ev)
        for mb in mblocks:
            t, pol = lib_cond(cfg.cond_of(f, mb))
            tgt = f.blocks[mb]["succ"][0 if pol else 1]
            if tgt is None or sat["head"] in cfg.reach(f, tgt, avoid_blocks=set(b for b, _, _ in sig_ev)):
                every_listed = False
        ctx.ob("C15.c.satall", A["no_match"], every_tested and every_listed, pattern=short_loc(sat["loc"]),
               unit=tu.name, inst=f.q,
               detail="" if (every_tested and every_listed) else
               "not every saturated expectation that matches the call is listed: " +
               ("an iteration can skip the matches() test" if not every_tested else
                "a matching saturated expectation can be passed over without being printed"))
        # live listing happens exactly when no saturated expectation matched - decided on the function's own
        # bookkeeping, whatever it is (a flag, a counter, a helper's result): one iteration of the saturated loop is
        # interpreted with the element matching / not matching, and the code after that loop is interpreted from
        # each resulting state to see whether the live loop is entered
        from rules.common import LoopModel, iter_calls, Oracle
        from engine.table import Interp, Unknown
        try:
            lm = LoopModel(f, sat)
            M = "trompeloeil::call_matcher_base::matches"

            def orc(at, m):
                return Oracle(calls=iter_calls(at, {M: m}), any_member=True, any_call=True, any_param=True).descend_into(tu)

            def locals_of(it):
                return {k: v for k, v in it.env.items() if not (isinstance(v, tuple) and v and v[0] in ("iter", "range", "opaque", "elem", "ptr"))}

            if live["entry"] in cfg.reach(f, f.entry, avoid_blocks={lm.entry}):
                ctx.ob("C15.c.either", A["no_match"], False, pattern=f.pat, unit=tu.name, inst=f.q,
                       detail="the live-expectation listing is not restricted to the case where no saturated expectation "
                       "matched: the live expectations are examined (and thereby marked as reported) before the "
                       "saturated ones have been looked at")
                continue
            env0 = lm.pre_env(orc("elem", False))
            r_no, it_no = lm.step(orc("elem", False), dict(env0), at="elem")
            r_yes, it_yes = lm.step(orc("elem", True), dict(env0), at="elem")
            why = None
            if r_no[0] != "stop" or r_yes[0] != "stop":
                why = "an iteration of the saturated listing does not come back for the next element"
            states = [("no saturated expectation matched", dict(env0), True)]
            if why is None:
                states.append(("no saturated expectation matched", locals_of(it_no), True))
                e1 = locals_of(it_yes)
                states.append(("a saturated expectation matched", e1, False))
                r2, it2 = lm.step(orc("elem", True), dict(e1), at="elem")
                if r2[0] == "stop":
                    states.append(("two saturated expectations matched", locals_of(it2), False))
                r3, it3 = lm.step(orc("elem", False), dict(e1), at="elem")
                if r3[0] == "stop":
                    states.append(("a saturated expectation matched, a later one did not", locals_of(it3), False))
            for what, env, want_live in states:
                if why is not None:
                    break
                it = Interp(f, orc("end", False))
                it.env.update(env)
                it.env.update(lm.env_for("end", it))
                r = it.run(start=lm.entry, stop_blocks={live["entry"]})
                entered = (r == ("stop", live["entry"]))
                if entered != want_live:
                    why = "when %s the live expectations are %slisted" % (what, "" if entered else "not ")
            ctx.ob("C15.c.either", A["no_match"], why is None, pattern=f.pat, unit=tu.name, inst=f.q,
                   detail="" if why is None else "the live-expectation listing is not restricted to the case where no "
                   "saturated expectation matched: " + why)
        except Unknown as u:
            ctx.ob("C15.c.either", A["no_match"], None, pattern=f.pat, unit=tu.name, inst=f.q,
                   detail="cannot interpret: %s" % u)
    # per expectation: parameters that rejected the call, or the first failing WITH
    for f in tu.need("trompeloeil::call_matcher::report_mismatch", 3):
        n += 1
        pm = cfg.find_events(f, lambda e: e["e"] == "call" and qe(e) == "trompeloeil::print_mismatch")
        ck = cfg.find_events(f, lambda e: e["e"] == "call" and qe(e) == A["condition_check"])
        ok = bool(pm) and bool(ck)
        if ok:
            # the two are on opposite edges of match_parameters(...)
            br = None
            for bid in f.blocks:
                c = cfg.cond_of(f, bid)
                if c is not None and lib.tree_name(lib_cond(c)[0]) == "trompeloeil::match_parameters":
                    br = (bid, lib_cond(c)[1])
            if br is None:
                ok = False
            else:
                bid, pol = br
                t_idx, f_idx = (0, 1) if pol else (1, 0)
                ok = all(cfg.edge_dominates(f, (bid, f_idx), b) for b, _, _ in pm) and \
                    all(cfg.edge_dominates(f, (bid, t_idx), b) for b, _, _ in ck)
        ctx.ob("C15.c.each", "trompeloeil::call_matcher::report_mismatch", ok, pattern=f.pat, unit=tu.name, inst=f.q,
               detail="" if ok else "per-expectation mismatch text: parameter mismatches must be printed when a "
               "parameter rejected the call, the failing WITH only when all parameters fit")
    return n


def _targs(t):
    """top-level template arguments of the outermost <...> in a type string"""
    i = t.find("<")
    if i < 0:
        return []
    depth, cur, out = 0, "", []
    for ch in t[i:]:
        if ch == "<":
            depth += 1
            if depth == 1:
                continue
        elif ch == ">":
            depth -= 1
            if depth == 0:
                break
        if ch == "," and depth == 1:
            out.append(cur.strip())
            cur = ""
        else:
            cur += ch
    if cur.strip():
        out.append(cur.strip())
    return out


def c15d(ctx, tu):
    """A report about a call shows the ACTUAL arguments of that call, all of them, under their own numbers.
    (1) what the dispatch path hands to the forbidden-call report as the printed values is derived from the call's
    parameter tuple (a parameter of the reporting function), not from the expectation's stored values / matchers;
    (2) the parameter printer visits every index of the tuple, unconditionally, and labels index I with I."""
    n = 0
    rf = tu.find(A["report_forbidden_call"])
    for callee in rf:
        sp = [i for i, p in enumerate(callee.rec["params"]) if "basic_string" in p["t"] or p["t"].startswith("std::string")]
        if not sp:
            # the report function may take the call's parameter tuple and print it itself
            sp = [i for i, p in enumerate(callee.rec["params"]) if "tuple<" in p["t"]]
        for cf, b, e in tu.callers().get(callee.id, ()):
            if not cf.is_lib:
                continue
            args = e.get("args") or []
            if len(sp) != 1 or sp[0] >= len(args):
                ctx.ob("C15.d.actual", cf.qe, None, pattern=short_loc(e.get("loc", "")), unit=tu.name, inst=cf.q,
                       detail="cannot tell which argument of the forbidden-call report is the printed values")
                continue
            n += 1
            leaves = []

            def walk(t, depth=0):
                t = lib.strip_casts(t)
                if not isinstance(t, list) or not t:
                    return
                if t[0] in ("param", "member", "oparam", "gvar"):
                    leaves.append(t)
                    return
                if t[0] == "var" and depth < 4:
                    for _, d in cf.events():
                        if d["e"] == "decl" and d.get("var") == t[1]:
                            walk(d.get("init"), depth + 1)
                    return
                for x in t[1:]:
                    if isinstance(x, list):
                        for y in (x if x and isinstance(x[0], list) else [x]):
                            walk(y, depth)
            walk(args[sp[0]])
            own = [t for t in leaves if t[0] == "param"]
            other = [t for t in leaves if t[0] != "param"]
            ok = bool(own) and not other
            ctx.ob("C15.d.actual", cf.qe, ok, pattern=short_loc(e.get("loc", "")), unit=tu.name, inst=cf.q,
                   detail="" if ok else "the values printed in a forbidden-call report must be the arguments of the call "
                   "that was made (the reporting function's call-parameter tuple); they are built from %s"
                   % (", ".join(sorted(set(lib.tree_name(t) or str(t[:3]) for t in other))) or "nothing of the call"))
    # the parameter printer: its entry point (stream, tuple) is interpreted - index-pack overloads, recursion over
    # the pack and helpers followed - and must hand every element of the tuple, once each in order, to the element
    # printer under its own number
    from engine.table import Interp, Unknown
    from rules.common import Oracle
    for fn in [f for f in tu.find("trompeloeil::stream_params") if f.has_body]:
        ps = fn.rec["params"]
        if any("integer_sequence<" in p["t"] for p in ps):
            continue
        tup = [i for i, p in enumerate(ps) if "tuple<" in p["t"]]
        if len(tup) != 1:
            ctx.ob("C15.d.every", "trompeloeil::stream_params", None, pattern=fn.pat, unit=tu.name, inst=fn.q,
                   detail="parameter printer without a tuple parameter: unrecognised form")
            continue
        arity = len(_targs(ps[tup[0]]["t"][ps[tup[0]]["t"].index("tuple<"):]))
        n += 1
        seen = []

        def elem(t, it, seen=seen):
            args = t[3]
            g = __import__("re").findall(r"std::get<(\d+)", str(args))
            lab = None
            for a in args:
                try:
                    v = it.ev(a)
                except Unknown:
                    continue
                if isinstance(v, int) and not isinstance(v, bool):
                    lab = v
                    break
            seen.append((g[0] if len(set(g)) == 1 else None, lab))
            return ("opaque", "os")
        try:
            o = Oracle(calls={"trompeloeil::missed_value": elem}, any_call=True, any_param=True,
                       any_member=True).descend_into(tu, depth=24)
            Interp(fn, o).run(max_steps=6000)
        except Unknown as u:
            ctx.ob("C15.d.every", "trompeloeil::stream_params", None, pattern=fn.pat, unit=tu.name, inst=fn.q,
                   detail="cannot interpret: %s" % u)
            continue
        order = []
        for g, lab in seen:
            if g is not None and (not order or order[-1][0] != g):
                order.append((g, lab))
        why = None
        if [g for g, _ in order] != [str(i) for i in range(arity)]:
            why = "of %d arguments the elements printed are %s" % (arity, [g for g, _ in order])
        else:
            wrong = [(g, lab) for g, lab in order if lab is not None and str(lab) != g]
            if wrong:
                why = "argument %s is printed under the number of argument %s" % wrong[0]
        ctx.ob("C15.d.every", "trompeloeil::stream_params", why is None, pattern=fn.pat, unit=tu.name, inst=fn.q,
               detail="" if why is None else "a report lists every actual argument of the call: " + why)
    return n


def c15e(ctx, tu):
    """per expectation, EVERY parameter that rejected the call is printed: the index-pack overload of
    print_mismatch examines each index unconditionally, and the per-parameter overload prints exactly when
    that parameter does not match"""
    n = 0
    for fn in tu.find("trompeloeil::print_mismatch"):
        ps = fn.rec["params"]
        if len(ps) >= 2 and ps[1]["t"].startswith("std::integer_sequence<"):
            idx = [x for x in ps[1]["t"][len("std::integer_sequence<unsigned long"):-1].split(",") if x.strip()]
            allc = cfg.find_events(fn, lambda e: e["e"] == "call" and qe(e) == "trompeloeil::print_mismatch")
            # examinations of one parameter (4 arguments) vs. the recursive step over the remaining indices
            def is_pack_overload(ev):
                c = tu.fns.get(ev.get("callee"))
                ps = (c.rec.get("params") or []) if c is not None else []
                return len(ps) >= 2 and "integer_sequence" in ps[1].get("t", "")
            rec = [c for c in allc if is_pack_overload(c[2])]
            calls = [c for c in allc if c not in rec]
            n += 1
            if rec:
                # head / tail recursion: this instantiation examines its first index and hands the rest on, both
                # unconditionally; the instantiation for the remaining indices is checked in its own right
                ok = len(calls) == 1 and len(rec) == 1 and len(idx) >= 1 and \
                    all(fn.exit not in cfg.reach(fn, fn.entry, avoid_blocks={b}) for b, i, e in calls + rec)
                used = sorted(set(__import__("re").findall(r"std::get<(\d+)", str([e for _, _, e in calls]))))
                ok = ok and used == [idx[0].strip().rstrip("UL").rstrip("ul")]
                ctx.ob("C15.c.allparams", "trompeloeil::print_mismatch<I...>", ok, pattern=fn.pat, unit=tu.name, inst=fn.q,
                       detail="" if ok else "each step of the recursion over the parameter indices must examine its first "
                       "index and pass the rest on, unconditionally")
                continue
            ok = len(calls) == len(idx)
            why = "one examination per parameter index is needed (%d indices, %d examinations)" % (len(idx), len(calls))
            if ok:
                for b, i, e in calls:
                    if fn.exit in cfg.reach(fn, fn.entry, avoid_blocks={b}):
                        ok = False
                        why = "the examination of a later parameter is skipped when an earlier one already rejected the " \
                              "call: not every rejecting parameter is listed"
                used = sorted(set(__import__("re").findall(r"std::get<(\d+)", str([e for _, _, e in calls]))))
                ok = ok and len(used) == len(idx)
            ctx.ob("C15.c.allparams", "trompeloeil::print_mismatch<I...>", ok, pattern=fn.pat, unit=tu.name, inst=fn.q,
                   detail="" if ok else why)
        elif len(ps) == 4:
            n += 1
            pm = cfg.find_events(fn, lambda e: e["e"] == "call" and qe(e) == "trompeloeil::param_matches")
            pr = cfg.find_events(fn, lambda e: e["e"] == "call" and qe(e) == "trompeloeil::print_expectation")
            g = [bid for bid in fn.blocks if cfg.cond_of(fn, bid) is not None and
                 lib.tree_name(lib_cond(cfg.cond_of(fn, bid))[0]) == "trompeloeil::param_matches"]
            ok = len(pm) >= 1 and len(pr) == 1 and len(g) == 1
            if ok:
                pol = lib_cond(cfg.cond_of(fn, g[0]))[1]
                ok = cfg.edge_dominates(fn, (g[0], 1 if pol else 0), pr[0][0])     # printed on the mismatch edge
                # ... and on that edge it IS printed
                tgt = fn.blocks[g[0]]["succ"][1 if pol else 0]
                ok = ok and tgt is not None and fn.exit not in cfg.reach(fn, tgt, avoid_blocks={pr[0][0]})
            ctx.ob("C15.c.allparams", "trompeloeil::print_mismatch (one parameter)", ok, pattern=fn.pat, unit=tu.name,
                   inst=fn.q, detail="" if ok else "a parameter must be printed exactly when it does not match the call")
    return n


def lib_cond(c):
    from engine.auto import cond_shape
    return cond_shape(c)


def run(ctx):
    ctx.explanation = (
        "C15.a: every report reachable from any library destructor (and from mock destruction) is "
        "non-fatal and every report reachable from the mock-call dispatch is fatal - severity arguments "
        "that are parameters are resolved per calling context by the interprocedural automaton. C15.b: "
        "parameter-to-argument data-flow of the location argument of every report site to its origins over "
        "all callers. C15.c: structure of the no-match report (all actual parameters, listing loops "
        "without early exit, saturated listing guarded by matches(), live listing only when no saturated "
        "expectation matched, per expectation either rejecting parameters or the failing WITH). C15.d: the values "
        "printed by the forbidden-call report are derived from the call's own parameter tuple, and the parameter "
        "printer visits every index of that tuple unconditionally under its own number.")
    ctx.assumptions = ["conforming reporter; class-hierarchy analysis over the analysed units"]
    ctx.not_decided = ["exact wording of the messages"]
    sites = set()
    units = []
    n_d = 0
    for tu in ctx.units(lambda n: not n.startswith("print") and not n.startswith("match")):
        n = c15a(ctx, tu)
        c15b(ctx, tu)
        c15c(ctx, tu)
        c15e(ctx, tu)
        n_d += c15d(ctx, tu)
        from rules import C04
        C04.c04h(ctx, tu, rule="C15.c.moved")   # the saturated listing of a moved mock: the list moves with it
        for f, e in send_sites(tu):
            sites.add((f.qe, short_loc(e.get("loc", ""))))
        units.append({"unit": tu.name, "functions": len(tu.fns), "severity_contexts": n})
    ctx.floor("C15 report sites", len(sites), 8)
    ctx.floor("C15.d printed-argument obligations", n_d, 10)
    ctx.extra["units"] = units
    ctx.extra["report_sites"] = sorted("%s @ %s" % s for s in sites)
