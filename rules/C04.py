"""C04 - end of lifetime: one non-fatal report iff the lower bound was missed, not twice."""
from engine import cfg, lib
from engine.auto import Explorer, fmt_trace, cond_shape
from engine.facts import erase, short_loc
from engine.lib import A, qe
from engine.table import Unknown, product
from rules.common import Oracle, ret_value
from rules import C15


def c04a(ctx, tu):
    """is_unfulfilled == !reported && linked && !satisfied"""
    rfield, rval = lib.reported_role(tu)
    # (the predicate may have been merged into the emitters: then C04.b, which interprets the emitters, decides alone)
    for fn in tu.find(A["is_unfulfilled"]):
        try:
            bad = None
            for v in product({"reported": [False, True], "linked": [False, True], "satisfied": [False, True]}):
                o = Oracle(calls={"trompeloeil::list_elem::is_linked": v["linked"],
                                  "std::unique_ptr::operator->": ("ptr", ("obj", "handler")),
                                  A["is_satisfied"]: v["satisfied"]},
                           members={rfield: rval if v["reported"] else (not rval),
                                    "trompeloeil::call_matcher::sequences": ("obj", "sequences")}).descend_into(tu)
                r = bool(ret_value(fn, o))
                want = (not v["reported"]) and v["linked"] and (not v["satisfied"])
                if r != want:
                    bad = "with reported=%s linked=%s satisfied=%s the expectation counts as %s" % (
                        v["reported"], v["linked"], v["satisfied"], "unfulfilled" if r else "not unfulfilled")
            ctx.ob("C04.a", A["is_unfulfilled"], bad is None, pattern=fn.pat, unit=tu.name, inst=fn.q,
                   detail="" if bad is None else "is_unfulfilled truth table: " + bad)
        except Unknown as u:
            ctx.ob("C04.a", A["is_unfulfilled"], None, pattern=fn.pat, unit=tu.name, detail="cannot interpret: %s" % u)


def c04b(ctx, tu):
    """both end-of-life emitters report the shortfall exactly when (not reported, linked, not satisfied):
    the emitter's CFG is interpreted on all 8 valuations of the atoms and the call of report_missed is
    observed - insensitive to whether the guard is the helper is_unfulfilled() or spelled out inline."""
    from engine.table import Interp
    rfield, rval = lib.reported_role(tu)
    for name in (A["dtor_call_matcher"], A["mock_destroyed"]):
        for fn in tu.need(name, 3):
            try:
                bad = None
                for v in product({"reported": [False, True], "linked": [False, True], "satisfied": [False, True]}):
                    seen = []
                    def rm(t, it, seen=seen):
                        seen.append("report_missed")
                        return None
                    want = (not v["reported"]) and v["linked"] and (not v["satisfied"])
                    # the emission is observed at report_missed or, when that has been merged away, at the
                    # report_unfulfilled call it makes; the guard is interpreted from its own body wherever it lives
                    calls = {A["report_missed"]: rm, A["report_unfulfilled"]: rm,
                             "trompeloeil::list_elem::is_linked": v["linked"], A["is_satisfied"]: v["satisfied"],
                             "std::unique_ptr::operator->": ("ptr", ("obj", "handler"))}
                    base = Oracle(calls=calls, members={rfield: rval if v["reported"] else (not rval),
                                                        "trompeloeil::call_matcher::sequences": ("obj", "sequences")},
                                  any_member=True).descend_into(tu)
                    def oracle(kind, t, it, base=base):
                        try:
                            return base(kind, t, it)
                        except Unknown:
                            if kind == "call":
                                return ("opaque", lib.tree_name(t) or "ctor")   # lock, unlink, retire ...: no influence
                            raise
                    it = Interp(fn, oracle)
                    it.run()
                    if (len(seen) == 1) != want or len(seen) > 1:
                        bad = "reported=%s linked=%s satisfied=%s: the shortfall is %sreported%s" % (
                            v["reported"], v["linked"], v["satisfied"], "" if seen else "not ",
                            " %d times" % len(seen) if len(seen) > 1 else "")
                ctx.ob("C04.b", name, bad is None, pattern=fn.pat, unit=tu.name, inst=fn.q,
                       detail="" if bad is None else "%s must report a missed expectation exactly when it has not been "
                       "reported, is still linked and is not satisfied: %s" % (name, bad))
            except Unknown as u:
                ctx.ob("C04.b", name, None, pattern=fn.pat, unit=tu.name, inst=fn.q, detail="cannot interpret: %s" % u)
    # ~call_matcher unlinks on every path (C01.e)
    for fn in tu.need(A["dtor_call_matcher"], 3):
        ul = cfg.find_events(fn, lambda e: e["e"] == "call" and qe(e) == A["unlink"] and e.get("recv") == ["this"])
        ok = bool(ul) and fn.exit not in cfg.reach(fn, fn.entry, avoid_blocks=set(b for b, _, _ in ul))
        ctx.ob("C01.e", A["dtor_call_matcher"], ok, pattern=fn.pat, unit=tu.name, inst=fn.q,
               detail="" if ok else "an expectation whose lifetime ends must unlink itself on every path")


def c04c(ctx, tu):
    """report_missed: reported <- true and exactly one report_unfulfilled; report_unfulfilled: one
    non-fatal send with the expectation's loc; ingredients flow from name / val / min / count."""
    def classify(fn, ev, env):
        if ev["e"] == "assign":
            r = lib.is_set_reported(tu, ev)
            if r is not None:
                return ("sym", "set_reported" if r else "clear_reported")
            return None
        if ev["e"] != "call":
            return None
        n = qe(ev)
        if n == A["report_unfulfilled"]:
            return ("sym", "report")
        if n in (A["send_report"], A["send"]):
            return ("sym", "send")
        return None

    def delta(q, sym):
        rep, n = q
        if sym == "set_reported":
            return (True, n)
        if sym == "clear_reported":
            return ("cleared", n)
        if sym in ("report", "send"):
            return (rep, min(n + 1, 2))
        return None

    ex = Explorer(tu, classify, delta=delta)
    for fn in tu.find(A["report_missed"]):
        exits, terms = ex.explore(fn, (False, 0))
        bad = None
        for (rep, n), tr in exits.items():
            if rep is not True:
                bad = "the expectation is not marked as reported when its shortfall is reported"
            elif n != 1:
                bad = "a missed expectation produces %d end-of-life reports" % n
        ctx.ob("C04.c", A["report_missed"], bad is None, pattern=fn.pat, unit=tu.name, inst=fn.q,
               detail="" if bad is None else bad)
    # the same, stated on the two lifetime ends themselves (holds wherever the emission code lives): every path that
    # emits the report marks the expectation, and no path emits twice
    n_emit = 0
    for name in (A["dtor_call_matcher"], A["mock_destroyed"]):
        for fn in tu.need(name, 3):
            exits, terms = ex.explore(fn, (False, 0))
            bad = None
            for (rep, n), tr in exits.items():
                if n >= 1:
                    n_emit += 1
                if n >= 1 and rep is not True:
                    bad = "the expectation is not marked as reported on a path that reports its shortfall"
                elif n > 1:
                    bad = "a missed expectation produces %d end-of-life reports" % n
            ctx.ob("C04.c", name, bad is None, pattern=fn.pat, unit=tu.name, inst=fn.q, detail="" if bad is None else bad)
    if n_emit == 0:
        ctx.ob("C04.c", "end-of-life emitters", None, unit=tu.name, detail="no path of the lifetime ends emits a report")
    for fn in [f for nm in (A["report_missed"], A["dtor_call_matcher"], A["mock_destroyed"]) for f in tu.find(nm)]:
        # ingredients
        calls = [e for b, e in fn.events() if e["e"] == "call" and qe(e) == A["report_unfulfilled"]]
        if len(calls) == 1:
            args = calls[0]["args"]
            s = str(args)
            need = {"name": "trompeloeil::call_matcher_base<", "values": "params_string", "min": "get_min_calls",
                    "count": "get_calls", "loc": "::loc"}
            missing = [k for k, v in need.items() if v not in s]
            ok = not missing and "::val" in s
            ctx.ob("C04.c.data", A["report_missed"], ok, pattern=fn.pat, unit=tu.name, inst=fn.q,
                   detail="" if ok else "the unfulfilled report no longer carries: " + ", ".join(missing or ["expected values"]))
    for fn in tu.need(A["report_unfulfilled"], 1):
        sends = [e for b, e in fn.events() if e["e"] == "call" and qe(e) == A["send_report"]]
        ok = len(sends) == 1 and lib.severity_of(sends[0]["args"][0], {}) == "nonfatal" and \
            sends[0]["args"][1][:1] == ["param"] or (len(sends) == 1 and "param" in str(sends[0]["args"][1]))
        ok = ok and len(sends) == 1 and lib.severity_of(sends[0]["args"][0], {}) == "nonfatal"
        # single send on every path
        if ok:
            sb = cfg.find_events(fn, lambda e: e["e"] == "call" and qe(e) == A["send_report"])
            ok = fn.exit not in cfg.reach(fn, fn.entry, avoid_blocks={sb[0][0]})
        ctx.ob("C04.c", A["report_unfulfilled"], ok, pattern=fn.pat, unit=tu.name,
               detail="" if ok else "report_unfulfilled must send exactly one non-fatal report with the given location")


def c04d(ctx, tu):
    """who may call the emitters"""
    allowed = {A["report_missed"]: {A["dtor_call_matcher"], A["mock_destroyed"]},
               A["report_unfulfilled"]: {A["report_missed"], A["dtor_call_matcher"], A["mock_destroyed"]}}
    for f in tu.fns.values():
        if not f.has_body or not f.is_lib:
            continue
        for b, e in f.events():
            if e["e"] == "call" and qe(e) in allowed:
                ok = f.qe in allowed[qe(e)]
                ctx.ob("C04.d", f.qe + " -> " + qe(e).rsplit("::", 1)[-1], ok, pattern=short_loc(e.get("loc", "")),
                       unit=tu.name, detail="" if ok else "%s emits an end-of-life report outside the two lifetime "
                       "ends (expectation release, mock destruction)" % f.qe)


def c04e(ctx, tu):
    """decommission: per element mock_destroyed() then unlink(), iterator advanced before both"""
    from engine.auto import Explorer, fmt_trace

    def classify(fn, ev, env):
        # only the walk itself advances over the expectations (printing code further down has loops of its own)
        walker = fn.qe == A["decommission"]
        if ev["e"] == "incdec":
            return ("sym", "advance") if walker else None
        if ev["e"] != "call":
            return None
        n = qe(ev)
        if n == "trompeloeil::list::iterator::operator++":
            return ("sym", "advance") if walker else ("skip",)
        if n in (A["report_missed"], A["report_unfulfilled"]):
            return ("skip",)
        if n == A["unlink"]:
            return ("sym", "unlink")
        if n == "trompeloeil::list_elem::is_linked":
            return ("sym", "linked?")
        if n in (A["send_report"], A["send"]) or lib.user_callback(tu, ev):
            return ("skip",)
        return None

    def delta(q, sym):
        adv, unl, bad = q
        if sym == "advance":
            if adv and not unl:
                bad = bad or "an element is passed without being unlinked"
            return (True, False, bad)
        if sym == "unlink":
            if not adv:
                bad = bad or "an element is unlinked before the iterator has moved past it"
            if unl:
                bad = bad or "an element is unlinked twice"
            return (adv, True, bad)
        if sym == "linked?":
            if unl:
                bad = bad or "the end-of-life decision (which asks is_linked) is taken after the element was unlinked"
            return (adv, unl, bad)
        return None

    ex = Explorer(tu, classify, delta=delta)
    for fn in tu.need(A["decommission"], 3):
        ls = cfg.loops(fn)
        ok = len(ls) == 1
        why = "expected one loop"
        if ok:
            l = ls[0]
            exits, terms = ex.explore(fn, (False, False, None))
            bad = None
            for (adv, unl, flag), tr in exits.items():
                if flag:
                    bad = (flag, tr)
                elif adv and not unl:
                    bad = ("the last element is passed without being unlinked", tr)
            if bad is None and l["exit_edges"]:
                bad = ("the walk over the expectations can be left early", None)
            if bad is None and not any(unl for (adv, unl, flag) in exits):
                bad = ("no element is ever unlinked", None)
            ok = bad is None
            why = "" if ok else "per element: advance the iterator, report what is pending (while still linked), unlink - %s" % bad[0]
        ctx.ob("C04.e", A["decommission"], ok, pattern=fn.pat, unit=tu.name, inst=fn.q, detail="" if ok else why)
    # both lists of a mock function are decommissioned when it dies
    for fn in tu.need("trompeloeil::expectations::~expectations", 3):
        # (the lists, and the code that decommissions them, may live in a base class of the holder)
        bodies = [fn]
        for e in [e for b, e in fn.events() if e["e"] == "dtor" and e.get("kind") == "base"]:
            t = tu.fns.get(e.get("callee"))
            if t is not None and t.has_body and t.is_lib:
                bodies.append(t)
        recvs = [lib.holder_field(tu, e["recv"][1]) for f2 in bodies for b, e in f2.events()
                 if e["e"] == "call" and qe(e) == A["decommission"] and isinstance(e.get("recv"), list)
                 and e["recv"][:1] == ["member"]]
        ok = sorted(str(r) for r in recvs) == ["active", "saturated"]
        ctx.ob("C04.e", "trompeloeil::expectations::~expectations", ok, pattern=fn.pat, unit=tu.name, inst=fn.q,
               detail="" if ok else "a dying mock function must decommission both its active and its saturated list; "
               "found " + str(recvs))


def c04g(ctx, tu):
    """every branch that sends a report naming THIS expectation sets `reported` first
    (no-match listing, forbidden call).  The out-of-sequence branch is deliberately not required:
    its report is fatal and about the call; see DESIGN.md (F16, judged not a defect)."""
    for name in ("trompeloeil::call_matcher::report_mismatch",):
        for fn in tu.need(name, 3):
            sets = cfg.find_events(fn, lambda e: lib.is_set_reported(tu, e) is True)
            ok = bool(sets) and fn.exit not in cfg.reach(fn, fn.entry, avoid_blocks=set(b for b, _, _ in sets))
            ctx.ob("C04.g", name, ok, pattern=fn.pat, unit=tu.name, inst=fn.q,
                   detail="" if ok else "an expectation listed in a no-match report must be marked as reported, "
                   "otherwise its shortfall is reported a second time at end of life")
    for fn in tu.need(A["run_actions"], 3):
        rf = cfg.find_events(fn, lambda e: e["e"] == "call" and qe(e) == A["report_forbidden_call"])
        if not rf:
            # the helper may have been merged into run_actions: the fatal report on the is_forbidden() branch
            rf = [(b, i, e) for b, i, e in cfg.find_events(fn, lambda e: e["e"] == "call" and qe(e) in (A["send_report"], A["send"]))
                  if lib.severity_of(e["args"][0], {}) == "fatal"]
        sets = cfg.find_events(fn, lambda e: lib.is_set_reported(tu, e) is True)
        ok = bool(rf) and all(any(sb == rb and si < ri for sb, si, _ in sets) or
                              any(cfg.block_dominates(fn, sb, rb) and sb != rb for sb, si, _ in sets)
                              for rb, ri, _ in rf)
        ctx.ob("C04.g", A["run_actions"], ok, pattern=fn.pat, unit=tu.name, inst=fn.q,
               detail="" if ok else "the forbidden-call report must be preceded by marking the expectation as reported")


def c04h(ctx, tu, rule="C04.h"):
    """movable mocks: the move constructor of the expectations holder carries BOTH lists over (so that
    `linked` - and with it every end-of-life and saturated-match report - follows the mock)"""
    for c in tu.classes.values():
        if not c["q"].startswith("trompeloeil::expectations<true") or c.get("incomplete"):
            continue
        mv = c.get("special", {}).get("move_ctor", {})
        st = mv.get("status")
        ok = st == "defaulted"
        why = ""
        if not ok and st == "user" and mv.get("fn") in tu.fns and tu.fns[mv["fn"]].has_body:
            f = tu.fns[mv["fn"]]
            moved = set()
            crossed = []

            def src_fields(tree):
                # members of the moved-from holder (the parameter) that the source expression reads
                return set(erase(t[1]).rsplit("::", 1)[-1] for t in lib.subtrees(tree)
                           if isinstance(t, list) and t[:1] == ["member"] and isinstance(t[2], list) and t[2][:1] == ["param"])
            for b, e in f.events():
                dst = src = None
                if e["e"] == "init" and "field" in e and "param" in str(e.get("x")):
                    dst, src = erase(e["field"]).rsplit("::", 1)[-1], src_fields(e.get("x"))
                if e["e"] == "call" and e.get("op") == "=" and "param" in str(e.get("args")):
                    r = lib.strip_casts(e.get("recv"))
                    if isinstance(r, list) and r[:1] == ["member"]:
                        dst, src = erase(r[1]).rsplit("::", 1)[-1], src_fields(e.get("args"))
                if dst is not None:
                    if src and dst not in src:
                        crossed.append((dst, sorted(src)))     # filled from ANOTHER list of the source
                    else:
                        moved.add(dst)
            ok = {"active", "saturated"} <= moved and not crossed
            why = "the move constructor of a movable mock's expectation holder moves only %s" % sorted(moved)
            if crossed:
                why = "the move constructor of a movable mock's expectation holder fills `%s` from the source's %s" % (
                    crossed[0][0], crossed[0][1])
        elif not ok:
            why = "the move constructor of a movable mock's expectation holder is %s" % st
        ctx.ob(rule, "trompeloeil::expectations<true> move constructor", ok, pattern=short_loc(c.get("loc", "")),
               unit=tu.name, detail="" if ok else why + ": saturated (or active) expectations stay behind in the "
               "moved-from mock and are silently dropped when it dies")


def run(ctx):
    ctx.explanation = (
        "C04.a truth table of is_unfulfilled over (reported, linked, satisfied); C04.b both end-of-life "
        "emitters evaluate it on every path and report exactly on its true edge (edge dominance in the CFG); "
        "C04.c report_missed sets `reported` and sends exactly one report on every path (automaton), which is "
        "non-fatal and carries loc/name/values/min/count (data-flow); C04.d who-may-call for the emitters; "
        "C04.e decommission visits every element in the order advance / mock_destroyed / unlink and both "
        "lists are decommissioned; C04.g reports that name an expectation mark it as reported. Typestate "
        "argument: `reported` and `unlinked` are absorbing, so at most one end-of-life report per expectation "
        "over every history.")
    ctx.assumptions = ["conforming reporter", "class-hierarchy analysis over the analysed units"]
    ctx.not_decided = ["message wording beyond the data-flow of its ingredients",
                       "pointer surgery of the list splice for movable mocks (C14)"]
    units = []
    for tu in ctx.units(lambda n: n.startswith("core") or n.startswith("repo_ct") or n.startswith("coro")):
        c04a(ctx, tu)
        c04b(ctx, tu)
        c04c(ctx, tu)
        c04d(ctx, tu)
        c04e(ctx, tu)
        c04g(ctx, tu)
        C15.c15c(ctx, tu)    # C04.h: an expectation is marked `reported` only by a report that really lists it
        from rules import protocol
        # the count the end-of-life decision and text use is the number of HANDLED calls: a call that ends in a
        # fatal report must not have been counted
        protocol.report(ctx, tu, lambda r: True)   # the whole step protocol is a premise of this property
        c04h(ctx, tu)
        from rules import C03 as _C03
        if tu.find(A["set_limits"]):
            _C03.c03b(ctx, tu)     # "below its lower bound" is read off the limits every spelling of TIMES / RT_TIMES sets
        units.append({"unit": tu.name, "functions": len(tu.fns)})
    # "an ALLOW or FORBID expectation never reports at end of life" rests on what those spellings are: REQUIRE_CALL with
    # lower bound 0, in every macro family (token-equality of the expansions, C03.c / C07.a)
    from rules import C03
    C03.macro_tables(ctx, ("C03.c", "C07.a"))
    ctx.extra["units"] = units
