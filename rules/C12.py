"""C12 - thread safety: lock discipline (LOCK), single synchronisation object (WHO),
one critical section per listed operation (atomicity).

Sound over-approximation per thread: every access to shared library state G, on every path and
every call chain from every entry point found in the analysed units, happens with the global lock
held.  With one recursive mutex there is no lock-order deadlock; with one critical section per
operation every concurrent execution is equivalent to the sequential one in lock-acquisition order.
"""
import re

from engine import lib
from engine.facts import erase, short_loc, AnalysisBroken
from engine.lib import A, qe

NS = "trompeloeil::"

# ----------------------------------------------------------------------------- state tables
# Shared state G (confirmed by reading; one reason each)
DYN_G = {}          # erased field -> reason; roles discovered in the unit being analysed (set_unit)
DYN_CONTAINER = set()


CUR_TU = [None]


def set_unit(tu):
    CUR_TU[0] = tu
    CORE_CLASSES.update(lib.holder_classes(tu))
    """Shared fields are recognised by role, so that a renamed or regrouped member keeps its classification:
    the handler's limits and counter (rules/C03.roles: what get_min_calls()/get_calls() return plus the one
    integral field left), the expectation's only boolean member (the reported flag), the only pointer member of
    the move-nulling slot, the monitor's reference (or pointer) to that slot."""
    DYN_G.clear()
    DYN_CONTAINER.clear()
    ATOMIC.clear()
    ATOMIC.add(lib.died_field(tu))
    try:
        from rules import C03
        for leaf in C03.roles(tu).values():
            DYN_G[leaf] = "call limits and counter, read through sequence lists by other threads' calls"
        for c in tu.cls_by_qe.get("trompeloeil::sequence_handler_base", [])[:1]:
            for f in c.get("fields", ()):
                if erase(f["t"].replace("const ", "").strip()) in tu.cls_by_qe:
                    DYN_CONTAINER.add(erase(f["q"]))
    except Exception:
        pass
    for cq, pred, why in (
            ("trompeloeil::call_matcher", lambda f: f["t"] in ("bool", "_Bool"),
             "reported flag, written by calls and by mock destruction"),
            ("trompeloeil::null_on_move", lambda f: f["t"].rstrip().endswith("*"), "monitor slot inside a watched object"),
            ("trompeloeil::lifetime_monitor",
             lambda f: re.match(r"(trompeloeil::)?lifetime_monitor \*\s*(&|\*)\s*(const)?$", f["t"].strip()) is not None,
             "monitor's reference to the slot inside the watched object")):
        for c in tu.cls_by_qe.get(cq, [])[:1]:
            hit = [f for f in c.get("fields", ()) if pred(f)]
            if len(hit) == 1:
                DYN_G[erase(hit[0]["q"])] = why
    # members the unlocked queries may read on the strength of being atomic: declared as a plain object they are
    # ordinary shared state (a write under the lock does not make an unlocked read of a non-atomic race-free)
    for c in tu.classes.values():
        for f in c.get("fields", ()):
            if erase(f["q"]) in ATOMIC and not re.search(r"\batomic<", f.get("t", "")):
                DYN_G[erase(f["q"])] = "flag read by the unlocked queries; it is not declared atomic"


def g_class(field):
    """Return a reason string if the (un-erased) qualified field name is shared state."""
    fe = erase(field)
    if fe in DYN_G and not (fe.startswith("trompeloeil::null_on_move::") and "lifetime_monitor" not in field):
        return DYN_G[fe]
    if fe in ("trompeloeil::list_elem::next", "trompeloeil::list_elem::prev"):
        m = re.match(r"trompeloeil::list_elem<(.*)>::(next|prev)$", field)
        t = m.group(1) if m else ""
        if t.startswith("trompeloeil::call_matcher_base<"):
            return "links of expectation nodes / per-function list heads"
        if t == "trompeloeil::sequence_matcher":
            return "links of sequence handles / a sequence's pending list"
        return None
    if fe in ("trompeloeil::sequence_handler_base::min_calls", "trompeloeil::sequence_handler_base::max_calls",
              "trompeloeil::sequence_handler_base::call_count"):
        return "call limits and counter, read through sequence lists by other threads' calls"
    if fe == "trompeloeil::call_matcher::reported":
        return "reported flag, written by calls and by mock destruction"
    if fe == "trompeloeil::null_on_move::p" and "lifetime_monitor" in field:
        return "monitor slot inside a watched object"
    if fe == "trompeloeil::lifetime_monitor::object_monitor":
        return "monitor's reference to the slot inside the watched object"
    return None


# Non-shared classifications (anything accessed under the lock must appear in G or here)
PUBLISH_IMMUTABLE = {
    # written only while the expectation is private to its creating thread (builder steps) or by the
    # owner's destructor after its locked detach; read under the lock by the dispatch function
    "trompeloeil::call_matcher::actions", "trompeloeil::call_matcher::conditions",
    "trompeloeil::call_matcher::return_handler_obj", "trompeloeil::call_matcher::val",
    "trompeloeil::call_matcher::yield_expressions",
    "trompeloeil::call_matcher_base::loc", "trompeloeil::call_matcher_base::name",
    "trompeloeil::condition::c", "trompeloeil::condition_base::id", "trompeloeil::side_effect::a",
    "trompeloeil::return_handler_t::func", "trompeloeil::throw_handler_t::h",
    "trompeloeil::co_return_handler_t::func", "trompeloeil::co_return_handler_t::yields",
    "trompeloeil::co_throw_handler_t::h", "trompeloeil::yield_expr::f", "trompeloeil::co_yield_expr::f",
    "trompeloeil::sequence_matcher::exp_loc", "trompeloeil::sequence_matcher::exp_name",
    "trompeloeil::sequence_matcher::seq", "trompeloeil::sequence_matcher::seq_name",
    "trompeloeil::sequence_matcher::sequence_handler",
    "trompeloeil::sequence_handler::matchers", "trompeloeil::sequence_matchers::matchers",
    "trompeloeil::lifetime_monitor::call_name", "trompeloeil::lifetime_monitor::invocation_name",
    "trompeloeil::lifetime_monitor::loc", "trompeloeil::lifetime_monitor::object_name",
    "trompeloeil::location::file", "trompeloeil::location::line",
}
CONTAINER = {
    # naming the member only yields the sub-object; the shared state is its links / slot (in G)
    "trompeloeil::expectations::active", "trompeloeil::expectations::saturated",
    "trompeloeil::sequence_type::matchers", "trompeloeil::sequence::obj",
    "trompeloeil::deathwatched::trompeloeil_lifetime_monitor",
}
BUILDER_POINTER = {
    # handler pointer: written by set_sequence in the builder phase only (checked by C12.f)
    "trompeloeil::call_matcher::sequences", "trompeloeil::lifetime_monitor::sequences",
}
ATOMIC = {"trompeloeil::lifetime_monitor::died"}
LOCAL = {
    # fields of objects that live on one call's stack or in the builder expression
    "trompeloeil::list::iterator::p", "trompeloeil::trace_agent::loc", "trompeloeil::trace_agent::os",
    "trompeloeil::trace_agent::t", "trompeloeil::call_modifier::matcher", "trompeloeil::call_validator_t::obj",
    "trompeloeil::stream_sentry::fill", "trompeloeil::stream_sentry::flags", "trompeloeil::stream_sentry::os",
    "trompeloeil::stream_sentry::width", "trompeloeil::rt_multiplicity::high", "trompeloeil::rt_multiplicity::low",
    "trompeloeil::mini_span::begin_", "trompeloeil::mini_span::end_",
    "trompeloeil::stream_tracer::stream", "trompeloeil::tracer::previous",
}

# Exempt entry families (C12.c): not entered by the propagation; one symbol, one reason
EXEMPT_FN = {
    "trompeloeil::sequence_type::~sequence_type":
        "destroying a sequence object is not in the property's operation list (caller duty: not destroyed "
        "while another thread still uses it)",
    "trompeloeil::list_elem::list_elem":
        "move construction of nodes = moving a mock object / a sequence handle array (C++14 elidable "
        "initialisation); moving a mock is not in the property's operation list",
    "trompeloeil::list_elem::operator=":
        "move assignment of nodes (same as above)",
    "trompeloeil::sequence_handler_base::sequence_handler_base":
        "set_sequence copies the counters of the old handler, which is the zero-handle kind and was never "
        "registered in a sequence (C19 multiple_sequences* witnesses)",
}


CORE_CLASSES = {
    "trompeloeil::list_elem", "trompeloeil::list", "trompeloeil::sequence_handler_base",
    "trompeloeil::sequence_handler", "trompeloeil::sequence_matchers", "trompeloeil::sequence_matcher",
    "trompeloeil::sequence_type", "trompeloeil::sequence", "trompeloeil::call_matcher",
    "trompeloeil::call_matcher_base", "trompeloeil::call_matcher_list", "trompeloeil::expectations",
    "trompeloeil::expectation", "trompeloeil::null_on_move", "trompeloeil::lifetime_monitor",
    "trompeloeil::deathwatched", "trompeloeil::condition_base", "trompeloeil::side_effect_base",
    "trompeloeil::return_handler", "trompeloeil::yield_expr_base",
}


PRIVATE_BUILDER = {"trompeloeil::times::action", "trompeloeil::runtime_times::action"}


def classify_field(field):
    fe = erase(field)
    if fe.rsplit("::", 1)[0] not in CORE_CLASSES:
        return "value / helper class outside the library's linked state"
    if g_class(field):
        return "G"
    if fe in ("trompeloeil::list_elem::next", "trompeloeil::list_elem::prev"):
        return "clause-node links (publish-immutable)"
    if fe == "trompeloeil::null_on_move::p" or (fe.startswith("trompeloeil::null_on_move::") and fe in DYN_G):
        return "G"  # any instantiation of the slot type
    if fe in DYN_CONTAINER:
        return "container"
    if CUR_TU[0] is not None and lib.holder_field(CUR_TU[0], fe):
        return "container"
    if CUR_TU[0] is not None and fe in (lib.peer_roles(CUR_TU[0]).get("seq_ref"), lib.peer_roles(CUR_TU[0]).get("handler_ref")):
        return "publish-immutable"     # set once in the handle's constructor
    ft = _field_type(fe)
    if ft is not None and re.search(r"\batomic<", ft):
        return "atomic"                # by its declared type, whatever it is called
    if fe in ATOMIC:
        # read by the unlocked queries on the strength of being atomic: as a plain object it is ordinary shared state
        return "G"
    for name, tab in (("publish-immutable", PUBLISH_IMMUTABLE), ("container", CONTAINER),
                      ("builder-pointer", BUILDER_POINTER), ("local", LOCAL)):
        if fe in tab:
            return name
    return None


def _field_type(fe):
    tu = CUR_TU[0]
    if tu is None:
        return None
    cache = getattr(tu, "_c12_ftypes", None)
    if cache is None:
        cache = {}
        for c in tu.classes.values():
            for f in c.get("fields", ()):
                cache.setdefault(erase(f["q"]), f.get("t", ""))
        tu._c12_ftypes = cache
    return cache.get(fe)


# ----------------------------------------------------------------------------- intraprocedural flow
LOCK_TYPE = re.compile(r"\bunique_lock<")


def is_this(tree):
    t = lib.strip_casts(tree)
    while isinstance(t, list) and t and t[0] == "u" and t[1] in ("*", "&"):
        t = lib.strip_casts(t[2])
    return t == ["this"]


def through_smart_ptr(tree):
    """this->F for trees of the shape  (this->F).operator->()  /  *(this->F)"""
    t = lib.strip_casts(tree)
    if isinstance(t, list) and t and t[0] == "opcall" and t[3] in ("->", "*") and t[4]:
        return this_field(t[4][0])
    if isinstance(t, list) and t and t[0] == "u" and t[1] == "*":
        return through_smart_ptr(t[2]) or this_field(t[2])
    return None


def this_field(tree):
    """'F' when tree is this->F (possibly cast), else None"""
    t = lib.strip_casts(tree)
    if isinstance(t, list) and t and t[0] == "member" and is_this(t[2]):
        return t[1]
    return None


class FnFlow:
    """Per function: for every event the set of (held, detached) states under which it is reached,
    for entry context ctx in {'U','L','C'}.  Local lock depth is tracked path-sensitively."""

    def __init__(self, tu, fn):
        self.tu = tu
        self.fn = fn
        self.lockvars = set()
        for b, e in fn.events():
            if e["e"] == "decl" and LOCK_TYPE.search(e.get("type", "")) and not e["type"].endswith("&"):
                self.lockvars.add(e["var"])
        self.occ = None

    def run(self):
        """-> list of (block id, event index, event, depth, detached frozenset)"""
        if self.occ is not None:
            return self.occ
        fn = self.fn
        occ = []
        seen = set()
        work = [(fn.entry, 0, frozenset())]
        while work:
            bid, depth, det = work.pop()
            if (bid, depth, det) in seen:
                continue
            seen.add((bid, depth, det))
            b = fn.blocks[bid]
            for i, e in enumerate(b["ev"]):
                k = e["e"]
                if k == "decl" and e["var"] in self.lockvars:
                    occ.append((bid, i, e, depth, det))
                    depth += 1
                    continue
                if k == "dtor" and e.get("kind") == "auto" and e.get("var") in self.lockvars:
                    depth = max(0, depth - 1)
                    continue
                if k == "call" and isinstance(e.get("recv"), list) and e["recv"][:1] == ["var"] \
                        and e["recv"][1] in self.lockvars:
                    m = qe(e).rsplit("::", 1)[-1]
                    if m in ("unlock", "release"):
                        depth = max(0, depth - 1)
                    elif m == "lock":
                        depth += 1
                    continue
                occ.append((bid, i, e, depth, det))
                # locked detach of this / this->F
                if k == "call" and depth > 0:
                    n = qe(e)
                    if n == A["unlink"]:
                        if is_this(e.get("recv")):
                            det = det | {"this"}
                        else:
                            f = this_field(e.get("recv"))
                            if f:
                                det = det | {f}
                    elif n == A["retire"]:
                        # handles of the owned sequence handler leave their sequences
                        f = through_smart_ptr(e.get("recv"))
                        if f:
                            det = det | {f}
                if k == "call" and qe(e) == A["decommission"]:
                    f = this_field(e.get("recv"))
                    if f:
                        det = det | {f}
            for s in b.get("succ") or ():
                if s is not None:
                    work.append((s, depth, det))
        self.occ = occ
        return occ


class LockAnalysis:
    def __init__(self, ctx, tu):
        self.ctx = ctx
        self.tu = tu
        self.flows = {}
        self.reached = {}          # (fn id, ctx) -> True
        self.parents = {}          # (fn id, ctx) -> list of (caller id, caller ctx, event loc)
        self.unlocked = []         # (fn, event, ctxkind)
        self.locked_fields = {}    # field -> count (Engler-style candidate inference)
        self.exempted_hits = {}    # exempt fn -> count of unlocked entries
        self.lock_sites = set()
        self.covered_tail = 0

    def flow(self, fn):
        fl = self.flows.get(fn.id)
        if fl is None:
            fl = FnFlow(self.tu, fn)
            self.flows[fn.id] = fl
        return fl

    def roots(self):
        rs = []
        for f in self.tu.fns.values():
            if f.has_body and not f.is_lib and not f.is_std:
                rs.append(f)
        return rs

    def propagate(self):
        tu = self.tu
        work = []
        for r in self.roots():
            key = (r.id, "U")
            self.reached[key] = True
            work.append(key)
        while work:
            fid, c = work.pop()
            fn = tu.fns[fid]
            if not fn.has_body:
                continue
            fl = self.flow(fn)
            is_ctor = fn.kind == "ctor"
            for bid, i, e, depth, det in fl.run():
                held = depth > 0 or c == "L"
                k = e["e"]
                # ---- accesses
                fields = []
                if k == "member":
                    fields.append((e["field"], e.get("base")))
                elif k == "init" and "field" in e:
                    fields.append((e["field"], ["this"]))
                if k == "decl" and e["var"] in fl.lockvars:
                    self.lock_sites.add((fn.qe, short_loc(e.get("loc", ""))))
                for field, base in fields:
                    if not field.startswith(NS) or fn.is_std:
                        continue
                    if held:
                        self.locked_fields[field] = self.locked_fields.get(field, 0) + 1
                    reason = g_class(field)
                    if reason is None:
                        continue
                    if held:
                        continue
                    # construction: the object's own fields inside its own class's constructor
                    if is_ctor and is_this(base) and erase(field).rsplit("::", 1)[0] == erase(fn.rec.get("clsq", "")):
                        continue
                    # covered destructor tail: node already detached under the lock
                    if c == "C" and erase(field) in ("trompeloeil::list_elem::next", "trompeloeil::list_elem::prev"):
                        self.covered_tail += 1
                        continue
                    self.unlocked.append((fn, e, field, reason))
                # ---- calls
                if k in ("call", "ctor", "dtor", "delete"):
                    if e.get("elidable"):
                        continue
                    for tid in tu.targets(e):
                        callee = tu.fns.get(tid)
                        if callee is None or not callee.has_body:
                            continue
                        if callee.qe in EXEMPT_FN and not held:
                            self.exempted_hits[callee.qe] = self.exempted_hits.get(callee.qe, 0) + 1
                            continue
                        if held:
                            nc = "L"
                        elif callee.qe in PRIVATE_BUILDER and "sequence_injector" not in callee.q:
                            # TIMES / RT_TIMES before any IN_SEQUENCE: the expectation under construction is
                            # reachable by no other thread yet (it joins a sequence only when IN_SEQUENCE is
                            # evaluated and its list only in make_expectation)
                            self.exempted_hits["private builder step " + callee.qe] = \
                                self.exempted_hits.get("private builder step " + callee.qe, 0) + 1
                            nc = "L"
                        else:
                            nc = "U"
                            if k == "dtor" and e.get("kind") == "base" and fn.kind == "dtor":
                                if c == "C" or "this" in det:
                                    nc = "C"
                            elif k == "dtor" and e.get("kind") == "member" and fn.kind == "dtor":
                                if e.get("field") in det:
                                    nc = "C"
                            elif c == "C" and k == "call" and is_this(e.get("recv")):
                                nc = "C"   # helper invoked on the detached node itself
                            elif c == "C" and (callee.qe.startswith("trompeloeil::list::")
                                               or callee.qe.startswith("trompeloeil::list_elem::")):
                                nc = "C"   # list / iterator plumbing over the detached (empty) head
                            elif c == "C" and k in ("dtor", "delete"):
                                nc = "C"   # destruction of sub-objects of the detached object
                            elif c == "C" and fn.is_std:
                                nc = "C"   # smart-pointer / container plumbing on the way to the pointee
                        key = (tid, nc)
                        self.parents.setdefault(key, []).append((fid, c, e.get("loc", "")))
                        if key not in self.reached:
                            self.reached[key] = True
                            work.append(key)

    def entries_of(self, fid, c, limit=6):
        """user-code roots from which (fid, c) is reached through call sites at which no lock is held"""
        seen = set()
        out = []
        work = [(fid, c, None)]
        while work and len(out) < limit:
            f, cc, via = work.pop()
            if (f, cc) in seen:
                continue
            seen.add((f, cc))
            fn = self.tu.fns[f]
            if not fn.is_lib and not fn.is_std:
                out.append((fn, via))
                continue
            for (pf, pc, loc) in self.parents.get((f, cc), ()):
                if pc in ("U", "C"):
                    pfn = self.tu.fns[pf]
                    nvia = via
                    if pfn.is_lib and (via is None):
                        nvia = None
                    if fn.is_lib:
                        nvia = fn  # outermost library function on the chain so far
                    work.append((pf, pc, nvia))
        return out


def chain_to_root(la, fid, c, limit=14):
    """one witness call chain (library frames) from a user root to (fid, c)"""
    chain = []
    seen = set()
    cur = (fid, c)
    while cur not in seen and len(chain) < limit:
        seen.add(cur)
        fn = la.tu.fns[cur[0]]
        chain.append(fn.qe)
        if not fn.is_lib and not fn.is_std:
            break
        ps = [p for p in la.parents.get(cur, ()) if p[1] in ("U", "C")]
        if not ps:
            break
        cur = (ps[0][0], ps[0][1])
    chain.reverse()
    return chain


REQUIRED_ENTRIES = [A["dispatch"], "trompeloeil::call_validator_t::make_expectation",
                    A["dtor_call_matcher"], "trompeloeil::call_matcher::is_satisfied",
                    "trompeloeil::call_matcher::is_saturated", "trompeloeil::sequence::is_completed",
                    A["decommission"], A["dtor_deathwatched"], "trompeloeil::deathwatched::trompeloeil_expect_death",
                    A["dtor_lifetime_monitor"], "trompeloeil::lifetime_monitor::is_satisfied",
                    "trompeloeil::sequence_matcher::sequence_matcher", "trompeloeil::times::action",
                    "trompeloeil::runtime_times::action"]


def c12a(ctx, tu):
    la = LockAnalysis(ctx, tu)
    la.propagate()
    # entry points seen unlocked
    reached_u = set(tu.fns[f].qe for (f, c) in la.reached if c == "U")
    if tu.name.startswith("core"):
        for r in REQUIRED_ENTRIES:
            if r not in reached_u:
                ctx.ob("C12.a", r, None, unit=tu.name,
                       detail="expected entry point %s is not reached from user code in unit %s" % (r, tu.name))
    # candidate inference: everything accessed under the lock must be classified
    for field, n in sorted(la.locked_fields.items()):
        if classify_field(field) is None:
            ctx.ob("C12.a", "field " + erase(field), None, unit=tu.name,
                   detail="field %s is accessed with the lock held (%d sites) but is not classified as shared, "
                          "publish-immutable, container, builder-pointer, atomic or local in rules/C12.py" % (field, n))
    # group unlocked accesses by accessing function (construct)
    by_fn = {}
    for fn, e, field, reason in la.unlocked:
        by_fn.setdefault(fn.id, []).append((e, field, reason))
    flagged = set()
    for fid, items in by_fn.items():
        fn = tu.fns[fid]
        ctxs = [c for c in ("U", "C") if (fid, c) in la.reached]
        e, field, reason = items[0]
        c = ctxs[0] if ctxs else "U"
        chain = chain_to_root(la, fid, c)
        # construct = outermost library function on the chain whose own frame holds no lock
        outer = next((q for q in chain if q.startswith(NS)), fn.qe)
        rule = "C12.b" if any(".~" in q or "::~" in q for q in chain[-4:]) and fn.qe != outer else "C12.a"
        construct = outer if rule == "C12.a" else fn.qe + " reached from " + outer
        flagged.add((rule, construct))
        ctx.ob(rule, construct, False, pattern=short_loc(e.get("loc", "")), unit=tu.name, inst=fn.q,
               detail="%s of %s (%s) without the global lock; call chain: %s"
                      % ("access", erase(field), reason, " -> ".join(chain)),
               witness={"field": field, "site": e.get("loc"), "chain": chain,
                        "other_sites": [short_loc(x[0].get("loc", "")) for x in items[1:6]]})
    # held obligations: one per library function reached unlocked that touches G only under the lock
    for (fid, c) in la.reached:
        fn = tu.fns[fid]
        if c != "U" or not fn.is_lib or not fn.has_body:
            continue
        if fid in by_fn:
            continue
        ps = la.parents.get((fid, c), ())
        if any(not tu.fns[p[0]].is_lib and not tu.fns[p[0]].is_std for p in ps):
            if ("C12.a", fn.qe) not in flagged:
                ctx.ob("C12.a", fn.qe, True, pattern=fn.pat, unit=tu.name, inst=fn.q)
    return la


SYNC_TYPE = re.compile(r"\b(recursive_mutex|recursive_timed_mutex|timed_mutex|shared_mutex|shared_timed_mutex|"
                       r"mutex|condition_variable(_any)?|atomic_flag|counting_semaphore|binary_semaphore|latch|"
                       r"barrier|custom_recursive_mutex|pthread_mutex_t|pthread_spinlock_t)\b")


def c12d(ctx, tu):
    """Single synchronisation object."""
    n_sites = 0
    for f in tu.fns.values():
        if not f.has_body or not f.is_lib:
            continue
        for b, e in f.events():
            k = e["e"]
            t = None
            if k in ("decl",):
                t = e.get("type", "")
            elif k in ("ctor", "new"):
                t = e.get("type", "")
            if not t:
                continue
            # unique_lock<M> of the one mutex type is the lock object itself
            stripped = re.sub(r"unique_lock<[^<>]*>", "", t)
            stripped = re.sub(r"unique_ptr<[^<>]*custom_recursive_mutex[^<>]*>", "custom_recursive_mutex", stripped)
            if SYNC_TYPE.search(stripped):
                n_sites += 1
                ok = f.qe == A["get_lock"]
                ctx.ob("C12.d", f.qe, ok, pattern=short_loc(e.get("loc", "")), unit=tu.name,
                       detail="" if ok else "a second synchronisation object of type %s is created in %s; "
                       "with more than one lock the lock-order / single-critical-section argument no longer holds"
                       % (t, f.qe))
            if k == "decl" and LOCK_TYPE.search(t) and not t.endswith("&"):
                init = e.get("init")
                names = [lib.tree_name(c) for c in lib.tree_calls(init)]
                ok = A["get_lock"] in names
                ctx.ob("C12.d.lock", f.qe, ok, pattern=short_loc(e.get("loc", "")), unit=tu.name,
                       detail="" if ok else "lock object in %s is not obtained from get_lock()" % f.qe)
    # ... and it is created exactly once however many threads arrive first: by the initialiser of a function-local
    # static (which the language makes thread-safe), not by a test-and-assign of a static pointer
    for fn in tu.find(A["get_lock"]):
        if not fn.has_body:
            continue
        creates = [e for b, e in fn.events() if e["e"] in ("new", "call", "ctor") and
                   SYNC_TYPE.search(re.sub(r"unique_lock<[^<>]*>", "", (e.get("type") or "") if e["e"] != "call" else ""))]
        creates = [e for e in creates if e["e"] == "new" or "create_custom_recursive_mutex" in (e.get("q") or "")]
        creates += [e for b, e in fn.events() if e["e"] == "call" and "create_custom_recursive_mutex" in (e.get("q") or "")]
        statics = [e for b, e in fn.events() if e["e"] == "decl" and e.get("static")]
        in_init = any(("'new'" in str(d.get("init")) or "create_custom_recursive_mutex" in str(d.get("init"))) for d in statics)
        assigned = [e for b, e in fn.events() if e["e"] == "assign" and isinstance(e.get("lhs"), list) and
                    lib.strip_casts(e["lhs"])[:1] == ["gvar"]]
        if creates or statics:
            ok = in_init and not assigned
            ctx.ob("C12.d.once", A["get_lock"], ok, pattern=fn.pat, unit=tu.name, inst=fn.q,
                   detail="" if ok else "the global mutex is created by a hand-written test-and-assign of a static: two threads "
                   "that arrive first both construct it (and the second re-initialises a mutex the first may hold)")
    # the one lock is one per process: what get_lock() locks has static storage duration and is not thread_local
    for fn in tu.find(A["get_lock"]):
        if not fn.has_body:
            continue
        tls = [e for b, e in fn.events() if e["e"] == "decl" and e.get("tls")]
        tls += [t for b, e in fn.events() for t in lib.subtrees(e.get("x") if e["e"] == "return" else e.get("args"))
                if isinstance(t, list) and t[:1] == ["gvar"] and "tls" in t[3:]]
        ctx.ob("C12.d.global", A["get_lock"], not tls, pattern=fn.pat, unit=tu.name, inst=fn.q,
               detail="" if not tls else "get_lock() locks a thread_local object: every thread has its own mutex, "
               "so nothing excludes two threads from the library's shared state")
    # class fields of synchronisation types
    for c in tu.classes.values():
        if not c["q"].startswith(NS) or c.get("incomplete"):
            continue
        for fld in c.get("fields", ()):
            if SYNC_TYPE.search(fld["t"]) and "unique_lock" not in fld["t"]:
                ctx.ob("C12.d", "field " + erase(fld["q"]), False, pattern=short_loc(c.get("loc", "")), unit=tu.name,
                       detail="library class %s has a synchronisation member %s of type %s"
                              % (c["q"], fld["n"], fld["t"]))
    return n_sites


ATOMIC_OPS = {
    # operation entry -> description; all shared-state accesses of one such operation must lie in ONE
    # critical section
    A["dispatch"]: "mock call",
    A["dtor_call_matcher"]: "release of an expectation",
    "trompeloeil::call_matcher::is_satisfied": "is_satisfied query",
    "trompeloeil::call_matcher::is_saturated": "is_saturated query",
    "trompeloeil::sequence::is_completed": "is_completed query",
    A["dtor_deathwatched"]: "death of a watched object",
    A["decommission"]: "mock death (per function list)",
    A["dtor_lifetime_monitor"]: "release of a lifetime monitor",
    "trompeloeil::call_validator_t::make_expectation": "publication of an expectation",
}


def c12e(ctx, tu, la):
    """Atomicity: in each listed operation, the top-level critical sections that (transitively)
    touch G number at most one, and nothing that touches G runs outside it (destructor tails on a
    detached node excepted)."""
    # which functions may touch G at all (any context), transitively
    direct = set()
    for f in tu.fns.values():
        if not f.has_body or f.is_std:
            continue
        for b, e in f.events():
            if e["e"] == "member" and g_class(e["field"]):
                direct.add(f.id)
                break
    touches = set(direct)
    callers = tu.callers()
    work = list(direct)
    while work:
        x = work.pop()
        for (cf, b, e) in callers.get(x, ()):
            if cf.id not in touches:
                touches.add(cf.id)
                work.append(cf.id)
    n = 0
    for qname, what in ATOMIC_OPS.items():
        for fn in tu.find(qname):
            n += 1
            fl = la.flow(fn)
            # path-sensitive walk: (block, depth, section index, touched-in-section bitmask)
            bad = None
            seen = set()
            work = [(fn.entry, 0, 0, frozenset(), frozenset())]
            while work and bad is None:
                bid, depth, sec, tsecs, det = work.pop()
                if (bid, depth, sec, tsecs, det) in seen:
                    continue
                seen.add((bid, depth, sec, tsecs, det))
                b = fn.blocks[bid]
                for e in b["ev"]:
                    k = e["e"]
                    if k == "decl" and e["var"] in fl.lockvars:
                        if depth == 0:
                            sec += 1
                        depth += 1
                        continue
                    if k == "dtor" and e.get("kind") == "auto" and e.get("var") in fl.lockvars:
                        depth = max(0, depth - 1)
                        continue
                    touching = False
                    if k == "member" and g_class(e["field"]):
                        touching = True
                    elif k in ("call", "ctor", "dtor", "delete") and not e.get("elidable"):
                        covered = False
                        if k == "dtor" and e.get("kind") == "base" and "this" in det:
                            covered = True
                        if k == "dtor" and e.get("kind") == "member" and e.get("field") in det:
                            covered = True
                        if k == "dtor" and e.get("kind") == "member" and \
                                classify_field(e.get("field", "")) == "publish-immutable":
                            covered = True   # clause objects owned by this expectation only (C12.f)
                        if not covered:
                            for tid in tu.targets(e):
                                tf = tu.fns[tid]
                                if not tf.is_lib and not tf.is_std:
                                    continue   # user code (e.g. the watched class's own destructor)
                                if tid in touches and tf.qe not in EXEMPT_FN:
                                    touching = True
                        if k == "call" and depth > 0 and qe(e) == A["unlink"] and is_this(e.get("recv")):
                            det = det | {"this"}
                        if k == "call" and qe(e) == A["decommission"]:
                            f2 = this_field(e.get("recv"))
                            if f2:
                                det = det | {f2}
                        if k == "call" and depth > 0 and qe(e) == A["retire"]:
                            f2 = through_smart_ptr(e.get("recv"))
                            if f2:
                                det = det | {f2}
                    if touching:
                        s = sec if depth > 0 else -(sec + 1)  # outside any section: its own pseudo section
                        if depth == 0 and k == "member":
                            pass  # reported by C12.a
                        tsecs = tsecs | {s}
                        if len(tsecs) > 1:
                            bad = (e, sorted(tsecs))
                            break
                for s in b.get("succ") or ():
                    if s is not None:
                        work.append((s, depth, sec, tsecs, det))
            ctx.ob("C12.e", fn.qe, bad is None, pattern=fn.pat, unit=tu.name, inst=fn.q,
                   detail="" if bad is None else
                   "%s is not one critical section: shared state is touched in more than one lock scope "
                   "(or outside the lock) - at %s" % (what, short_loc(bad[0].get("loc", ""))),
                   witness=None if bad is None else {"event": {k: v for k, v in bad[0].items() if k != "_qe"},
                                                     "sections": bad[1]})
    return n


def c12g(ctx, tu, la):
    """Must-pass-through: an operation on an object that other threads reach through shared state
    acquires the lock on EVERY path to its exit.  Other threads use such an object only while holding
    the lock, so taking the lock is what makes its release wait for an operation in flight; a path
    that skips the acquisition (an unlocked fast path) frees the object under a concurrent user.
    Applied to the listed operations and to every library destructor that takes the lock on some path
    (if one path needs the lock and another does not, one of them is wrong)."""
    from engine import cfg
    n = 0
    cands = {}
    for qname in ATOMIC_OPS:
        for fn in tu.find(qname):
            cands[fn.id] = fn
    for fn in tu.fns.values():
        if fn.has_body and fn.is_lib and fn.kind == "dtor" and la.flow(fn).lockvars:
            cands[fn.id] = fn
    for fn in cands.values():
        fl = la.flow(fn)
        lock_blocks = set()
        for bid, b in fn.blocks.items():
            for e in b["ev"]:
                if e["e"] == "decl" and e["var"] in fl.lockvars:
                    lock_blocks.add(bid)
        if not lock_blocks:
            if fn.qe in ATOMIC_OPS:
                ctx.ob("C12.g", fn.qe, False, pattern=fn.pat, unit=tu.name, inst=fn.q,
                       detail="%s (%s) never acquires the global lock" % (fn.qe, ATOMIC_OPS[fn.qe]))
                n += 1
            continue
        n += 1
        skip = fn.exit in cfg.reach(fn, fn.entry, avoid_blocks=lock_blocks)
        # an event before the acquisition in the same block is fine; a path around the block is not
        ctx.ob("C12.g", fn.qe, not skip, pattern=fn.pat, unit=tu.name, inst=fn.q,
               detail="" if not skip else "%s has a path to its exit that does not acquire the global lock "
               "(unlocked fast path): its effects, and for a destructor the release of the object, are no longer "
               "ordered after an operation another thread has in flight on the same object" % fn.qe)
    return n


def c12f(ctx, tu):
    """Builder pointer fields are written only by set_sequence / member initialisers."""
    n = 0
    for f in tu.fns.values():
        if not f.has_body or not f.is_lib:
            continue
        for b, e in f.events():
            target = None
            if e["e"] == "assign":
                target = e.get("lhs")
            elif e["e"] == "call" and e.get("op") == "=":
                target = e.get("recv")
            elif e["e"] == "call" and qe(e).endswith("::reset"):
                target = e.get("recv")
            if target is None:
                continue
            t = lib.strip_casts(target)
            if isinstance(t, list) and t and t[0] == "member" and erase(t[1]) in BUILDER_POINTER:
                n += 1
                # the builder phase: set_sequence, or the IN_SEQUENCE clause itself when that helper is folded into it
                ok = f.qe.endswith("::set_sequence") or f.qe.endswith("_modifier::in_sequence")
                ctx.ob("C12.f", f.qe, ok, pattern=short_loc(e.get("loc", "")), unit=tu.name,
                       detail="" if ok else "%s replaces the sequence handler pointer %s; only set_sequence "
                       "(builder phase, before publication) may" % (f.qe, erase(t[1])))
    return n


def run(ctx):
    ctx.explanation = (
        "LOCK: flow-sensitive lock-held state per function and calling context {unlocked, locked, "
        "detached-tail}, propagated along the resolved call graph (virtual calls and destructors by "
        "class-hierarchy analysis, implicit member/base/temporary/automatic destructor calls from the CFG, "
        "libstdc++ smart-pointer bodies followed as instantiated) from every user-code function of the "
        "analysed units. C12.a every access to a field of the shared-state table G happens with the lock "
        "held; C12.b destructor tails (members and bases destroyed after the body's lock was released) are "
        "accepted only below a locked detach of the same sub-object; candidate inference: every library "
        "field accessed under the lock anywhere must be classified, else analysis broken; C12.d only "
        "get_lock creates a synchronisation object and every lock object comes from it; C12.e every listed "
        "operation touches shared state in exactly one critical section; C12.f the handler pointer is "
        "written only by set_sequence.")
    ctx.assumptions = [
        "user callbacks are opaque; reporter/tracer installation is the caller's duty",
        "elidable copies are elided (C++14 handle array initialisation)",
        "class-hierarchy analysis over the analysed units",
        "exempt entries (not in the property's operation list): " + "; ".join(sorted(EXEMPT_FN)),
    ]
    ctx.not_decided = ["races inside user callbacks", "installation of reporters/tracers concurrently with use",
                       "destruction of a sequence object / move of a mock concurrently with use (caller duty)"]
    units = []
    locks = set()
    for tu in ctx.units(lambda n: not n.startswith("print")):
        set_unit(tu)
        la = c12a(ctx, tu)
        c12d(ctx, tu)
        c12e(ctx, tu, la)
        c12f(ctx, tu)
        c12g(ctx, tu, la)
        locks |= la.lock_sites
        units.append({"unit": tu.name, "functions": len(tu.fns), "contexts_reached": len(la.reached),
                      "user_roots": len(la.roots()), "lock_acquisition_sites": len(la.lock_sites),
                      "fields_accessed_under_lock": len(la.locked_fields),
                      "exempt_entries_seen": la.exempted_hits,
                      "accesses_in_covered_destructor_tails": la.covered_tail})
    ctx.floor("C12 lock acquisition sites", len(locks), 11)
    ctx.extra["units"] = units
    ctx.extra["lock_sites"] = sorted("%s @ %s" % x for x in locks)
    ctx.extra["shared_state_table"] = ["list_elem<call_matcher_base<Sig>>::next/prev", "list_elem<sequence_matcher>::next/prev",
                                       "sequence_handler_base::min_calls/max_calls/call_count",
                                       "call_matcher::reported", "null_on_move<lifetime_monitor>::p",
                                       "lifetime_monitor::object_monitor"]
