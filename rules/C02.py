"""C02 - the newest eligible matching expectation handles the call; no other is touched."""
import os
import re

from engine import facts, cc, cfg, lib
from engine.facts import erase, short_loc, CACHE
from engine.lib import A, qe
from engine.table import Interp, Unknown, product
from rules.common import Oracle, ITER, loop_of, iter_env, MAXU, LoopModel, iter_calls
from rules import C08, C05


def find_roles(fn):
    """candidate = pointer local initialised null and returned after the loop;
    lowest = unsigned local initialised to all-ones"""
    cand = low = None
    for b, e in fn.events():
        if e["e"] == "decl":
            if e.get("init") == ["null"] and e.get("type", "").endswith("*"):
                cand = e["var"]
            if isinstance(e.get("init"), list) and e["init"][:2] == ["int", "max"]:
                low = e["var"]
    return cand, low


def c02a(ctx, tu):
    for fn in tu.need(A["find"], 5):
        try:
            l = loop_of(fn, "trompeloeil::call_matcher_base::matches")
            if l is None:
                raise Unknown("candidate loop not found")
            cand, low = find_roles(fn)
            if cand is None or low is None:
                raise Unknown("candidate / lowest-cost variables not recognised")
            # the loop ranges over the list parameter from its head
            rng = [e for b, e in fn.events() if e["e"] == "decl" and e.get("name", "").startswith("__range")]
            begins = [e for b, e in fn.events() if e["e"] == "call" and qe(e) == "trompeloeil::list::begin"]
            if not ((rng and rng[0].get("init", [None])[:2] == ["param", 0]) or
                    (begins and all(lib.strip_casts(e.get("recv") or [None])[:2] == ["param", 0] for e in begins))):
                raise Unknown("loop does not range over the list parameter")
            lm = LoopModel(fn, l)
            bad = None
            rows = []
            CUR = ("ptr", ("elem", "cur"))
            OLD = ("ptr", ("elem", "old"))
            for v in product({"m": [True, False], "c": [0, 1, 2, MAXU], "have": [False, True], "lowest": [1, 2, MAXU]}):
                if not v["have"] and v["lowest"] != MAXU:
                    continue  # no candidate yet  =>  lowest still at its initial all-ones value
                o = Oracle(calls=iter_calls("elem", {"trompeloeil::call_matcher_base::matches": v["m"],
                                                     "trompeloeil::call_matcher_base::sequence_cost": v["c"]}),
                           params={0: ("obj", "list"), 1: ("obj", "params")}).descend_into(tu)
                res, it = lm.step(o, {cand: OLD if v["have"] else None, low: v["lowest"]}, at="elem")
                after = (it.env.get(cand), it.env.get(low))
                # acceptable decisions
                if not v["m"]:
                    acc = [("stop", (it_old(v), v["lowest"]))]
                elif v["c"] == 0:
                    # newest zero-cost match wins: returned at once, or taken (then nothing can replace it)
                    acc = [("return", CUR), ("stop", (CUR, 0))]
                    if v["have"] and v["lowest"] == 0:
                        acc = [("stop", (OLD, 0))]
                elif (not v["have"]) or v["c"] < v["lowest"]:
                    acc = [("stop", (CUR, v["c"]))]
                else:
                    acc = [("stop", (OLD, v["lowest"]))]
                got = ("return", res[1]) if res[0] == "return" else ("stop", after)
                rows.append({"matches": v["m"], "cost": "inf" if v["c"] == MAXU else v["c"], "have_candidate": v["have"],
                             "lowest": "inf" if v["lowest"] == MAXU else v["lowest"], "decision": repr(got)})
                if got not in acc and bad is None:
                    bad = ("element %s, cost %s, %s: expected %s; code does %s" % (
                        "matches" if v["m"] else "does not match", "inf" if v["c"] == MAXU else v["c"],
                        ("candidate with cost %s" % ("inf" if v["lowest"] == MAXU else v["lowest"])) if v["have"] else "no candidate yet",
                        " or ".join(describe(a) for a in acc), describe(got)))
            # result after the loop is the candidate
            for have in (False, True):
                o = Oracle(calls=iter_calls("end", {"trompeloeil::call_matcher_base::matches": True,
                                                    "trompeloeil::call_matcher_base::sequence_cost": 1}),
                           params={0: ("obj", "list"), 1: ("obj", "params")}).descend_into(tu)
                res, it = lm.step(o, {cand: OLD if have else None, low: 2 if have else MAXU}, at="end")
                if res != ("return", OLD if have else None):
                    bad = bad or "after the loop the function must return the candidate"
            # the search starts without a candidate
            o = Oracle(calls=iter_calls("elem"), params={0: ("obj", "list"), 1: ("obj", "params")}, any_member=True).descend_into(tu)
            it0 = Interp(fn, o)
            r0 = it0.run(stop_blocks={lm.entry})
            if r0 != ("stop", lm.entry) or it0.env.get(cand, 1) is not None or it0.env.get(low) != MAXU:
                bad = bad or "the search must start with no candidate and an all-ones lowest cost"
            ctx.ob("C02.a", A["find"], bad is None, pattern=fn.pat, unit=tu.name, inst=fn.q,
                   detail="" if bad is None else "selection step table: " + bad,
                   witness=None if bad is None else {"rows": rows[:12]})
            ctx.sample({"rule": "C02.a", "function": fn.q, "rows": len(rows), "example": rows[:3]})
        except Unknown as u:
            ctx.ob("C02.a", A["find"], None, pattern=fn.pat, unit=tu.name, detail="cannot interpret %s: %s" % (fn.q, u))


def it_old(v):
    return ("ptr", ("elem", "old")) if v["have"] else None


def describe(d):
    if d[0] == "return":
        return "return this element"
    c, lo = d[1]
    if c is None:
        return "keep no candidate"
    who = "this element" if c == ("ptr", ("elem", "cur")) else "the earlier candidate"
    return "candidate=%s, lowest=%s" % (who, "inf" if lo == MAXU else lo)


def c02b(ctx, tu):
    """creation order: expectations enter their list only by push_front in hook_last, called only by
    make_expectation with the list selected by the tag; iteration starts at the head."""
    merged = not tu.find(A["hook_last"])
    if merged:
        # hook_last has been merged into make_expectation: the insertion is read off there
        n = 0
        for f in tu.need("trompeloeil::call_validator_t::make_expectation", 3):
            decls = {e["var"]: e for b, e in f.events() if e["e"] == "decl"}

            def resolve(t, depth=0):
                t = lib.strip_casts(t)
                if isinstance(t, list) and t[:1] == ["var"] and t[1] in decls and depth < 4:
                    return resolve(decls[t[1]].get("init"), depth + 1)
                return t
            ins = [e for b, e in f.events() if e["e"] == "call" and qe(e) in (A["push_front"], A["push_back"])
                   and "trompeloeil_matcher_list" in str(resolve(e.get("recv")))]
            n += len(ins)
            ok = len(ins) == 1 and qe(ins[0]) == A["push_front"] and "::matcher" in str(ins[0].get("args"))
            ctx.ob("C02.b", "trompeloeil::call_validator_t::make_expectation", ok, pattern=f.pat, unit=tu.name, inst=f.q,
                   detail="" if ok else "a new expectation must be put at the front of the list the mock object returns "
                   "for the expectation's tag (newest first), exactly once")
    for fn in tu.find(A["hook_last"]):
        pushes = [e for b, e in fn.events() if e["e"] == "call" and qe(e) in (A["push_front"], A["push_back"])]
        ok = len(pushes) == 1 and qe(pushes[0]) == A["push_front"] and pushes[0].get("args") == [["this"]] \
            and pushes[0].get("recv", [None])[:2] == ["param", 0]
        ctx.ob("C02.b", A["hook_last"], ok, pattern=fn.pat, unit=tu.name, inst=fn.q,
               detail="" if ok else "a new expectation must be put at the front of its function's list (newest first)")
    n = 0
    for f in tu.fns.values():
        if not f.has_body or not f.is_lib:
            continue
        for b, e in f.events():
            if e["e"] == "call" and qe(e) == A["hook_last"]:
                n += 1
                ok = f.qe == "trompeloeil::call_validator_t::make_expectation"
                if ok:
                    a = e["args"][0]
                    ok = lib.tree_name(a) is not None and lib.tree_name(a).endswith("::trompeloeil_matcher_list")
                ctx.ob("C02.b", f.qe, ok, pattern=short_loc(e.get("loc", "")), unit=tu.name, inst=f.q,
                       detail="" if ok else "expectations must be hooked only by make_expectation, into the list the "
                       "mock object returns for the expectation's tag")
            if e["e"] == "call" and qe(e) in (A["push_front"], A["push_back"]) and f.qe not in (A["hook_last"],) and \
                    not (merged and f.qe == "trompeloeil::call_validator_t::make_expectation"):
                r = str(e.get("recv"))
                if ("expectations<" in r or "expectation_lists<" in r) and ("::active" in r):
                    ctx.ob("C02.b", f.qe, False, pattern=short_loc(e.get("loc", "")), unit=tu.name,
                           detail="%s inserts into an active expectation list" % f.qe)
    # list::begin starts at the head's successor
    for fn in tu.need("trompeloeil::list::begin", 3):
        rets = [e.get("x") for b, e in fn.events() if e["e"] == "return"]
        ok = len(rets) == 1 and "list_elem" in str(rets[0]) and "::next" in str(rets[0])
        ctx.ob("C02.b", "trompeloeil::list::begin", ok, pattern=fn.pat, unit=tu.name, inst=fn.q,
               detail="" if ok else "iteration must start at the element after the list head (the newest expectation)")
    return n


def c02d(ctx, tu):
    """routing agreement per MAKE_MOCK line: the member passed to the dispatch function by the generated
    method is the member whose .active the tag's matcher-list accessor returns, and the tag is the one
    trompeloeil_tag_<name>(same parameters) yields."""
    n = 0
    by_cls = {}
    for f in tu.fns.values():
        if f.is_lib or f.is_std:
            continue
        short = f.qe.rsplit("::", 1)[-1]
        cls = f.rec.get("clsq")
        if cls is None:
            continue
        by_cls.setdefault(cls, []).append((short, f))
    for cls, fs in by_cls.items():
        lists = {}   # line id -> expectations member
        tags = {}    # name -> (line id, param types)
        for short, f in fs:
            if short == "trompeloeil_matcher_list" and f.has_body:
                m = re.search(r"trompeloeil_l_tag_type_trompeloeil_(\d+) \*", f.rec["params"][0]["t"])
                rets = [e.get("x") for b, e in f.events() if e["e"] == "return"]
                ok = bool(m) and len(rets) == 1
                mem = None
                if ok:
                    x = rets[0]
                    ok = x[:1] == ["member"] and lib.holder_field(tu, x[1]) == "active" and \
                        x[2][:1] == ["member"] and x[2][2] == ["this"]
                    if ok:
                        mem = x[2][1]
                        ok = mem.endswith("trompeloeil_l_expectations_" + m.group(1))
                n += 1
                ctx.ob("C02.d", "MAKE_MOCK: trompeloeil_matcher_list(tag)", ok, pattern=f.loc, unit=tu.name, inst=f.q,
                       detail="" if ok else "the matcher-list accessor of a mock function must return the ACTIVE list of "
                       "the expectations member generated on the same macro line as its tag")
                if ok:
                    lists[m.group(1)] = mem
            if short.startswith("trompeloeil_tag_"):
                m = re.search(r"trompeloeil_l_tag_type_trompeloeil_(\d+)$", f.rec.get("ret", ""))
                if m:
                    tags.setdefault(short[len("trompeloeil_tag_"):], []).append(
                        (m.group(1), [p["t"] for p in f.rec.get("params", [])], "const" if f.rec.get("const") else ""))
        for short, f in fs:
            if not f.has_body or short.startswith("trompeloeil_"):
                continue
            calls = [e for b, e in f.events() if e["e"] == "call" and qe(e) == A["dispatch"]]
            if not calls:
                continue
            n += 1
            e = calls[0]
            a0 = e["args"][0]
            ok = len(calls) == 1 and a0[:1] == ["member"] and a0[2] == ["this"]
            why = "the generated mock function must pass its own expectations member to the dispatch function"
            if ok:
                mem = a0[1]
                mline = re.search(r"trompeloeil_l_expectations_(\d+)$", mem)
                ptypes = [p["t"] for p in f.rec["params"]]
                cand = [t for t in tags.get(short, []) if t[1] == ptypes]
                ok = bool(mline) and bool(cand) and any(t[0] == mline.group(1) for t in cand) and \
                    lists.get(mline.group(1)) == mem
                why = ("%s::%s: the list it dispatches on (%s) is not the list that expectations placed on it are "
                       "routed to (tag lines %s)" % (cls, short, mem.rsplit("::", 1)[-1], [t[0] for t in cand]))
                # forwards its own parameters, in order
                fw = e["args"][3:]
                names = []
                for a in fw:
                    s = str(a)
                    mm = re.findall(r"\['param', (\d+),", s)
                    names.append(int(mm[0]) if mm else None)
                if ok and names != list(range(len(ptypes))):
                    ok = False
                    why = "%s::%s does not forward its parameters to the dispatch function in positional order: %s" % (cls, short, names)
            ctx.ob("C02.d", "MAKE_MOCK: generated mock function", ok, pattern=f.loc, unit=tu.name, inst=f.q,
                   detail="" if ok else why)
    return n


WITNESS = r'''
#include <trompeloeil.hpp>
#include <type_traits>
#include <string>
namespace w {
using namespace trompeloeil;
// overload isolation: expectation nodes and lists of different signatures are unrelated types
static_assert(!std::is_convertible<call_matcher<void(int), std::tuple<int>>*, call_matcher_base<void(long)>*>::value, "");
static_assert(!std::is_convertible<call_matcher<void(int), std::tuple<int>>*, call_matcher_base<int(int)>*>::value, "");
static_assert(std::is_convertible<call_matcher<void(int), std::tuple<int>>*, call_matcher_base<void(int)>*>::value, "");
static_assert(!std::is_convertible<call_matcher_list<void(int)>&, call_matcher_list<void(std::string)>&>::value, "");
struct M {
  MAKE_MOCK1(f, void(int));
  MAKE_MOCK1(f, void(std::string));
  MAKE_CONST_MOCK1(f, void(long));
  MAKE_MOCK1(g, void(int));
};
// the tag of each overload is a distinct type, and selects a list of that overload's signature
using tag_int = decltype(std::declval<M&>().trompeloeil_tag_f(1));
using tag_str = decltype(std::declval<M&>().trompeloeil_tag_f(std::string{}));
using tag_g = decltype(std::declval<M&>().trompeloeil_tag_g(1));
static_assert(!std::is_same<tag_int, tag_str>::value && !std::is_same<tag_int, tag_g>::value, "one tag per MAKE_MOCK line");
static_assert(std::is_same<decltype(std::declval<M&>().trompeloeil_matcher_list(static_cast<tag_int*>(nullptr))),
                           call_matcher_list<void(int)>&>::value, "tag -> list of the same signature");
static_assert(std::is_same<decltype(std::declval<M&>().trompeloeil_matcher_list(static_cast<tag_str*>(nullptr))),
                           call_matcher_list<void(std::string)>&>::value, "tag -> list of the same signature");
}
int main() {}
'''


def c02e(ctx):
    path = os.path.join(facts.gen_dir(), "c02_types.cpp")
    os.makedirs(os.path.dirname(path), exist_ok=True)
    with open(path, "w") as fh:
        fh.write(WITNESS)
    cfgs = [("clang++", "c++17")] if ctx.tier == "quick" else [(c, s) for c in ("clang++", "g++")
                                                                for s in ("c++14", "c++17", "c++20")]
    for (c, s), (rc, out) in zip(cfgs, cc.run_many([(cc.syntax_cmd(c, s, path), None) for c, s in cfgs])):
        ctx.ob("C02.e", "overload isolation type witnesses", rc == 0, pattern="verif:rules/C02.py", unit="%s@%s" % (c, s),
               detail="" if rc == 0 else "type witness failed: " + out[-600:])


def run(ctx):
    ctx.explanation = (
        "C02.a decision table of one iteration of the candidate loop, obtained by interpreting the extracted CFG "
        "of the loop body on every valuation of (element matches, cost in {0,1,2,inf}, candidate present, lowest "
        "cost so far) - each row has a set of acceptable decisions derived from the property, roles "
        "(candidate / lowest) are found by data-flow, not by name; C02.b new expectations are pushed to the front "
        "by hook_last only, from make_expectation only, into the list selected by the tag, and iteration starts "
        "after the head; C02.d per MAKE_MOCK in every analysed unit the generated function dispatches on the "
        "very member whose active list the tag selects and forwards its parameters in order; C02.e overload "
        "isolation by type witnesses; C02.f / C08.h receivers of run_actions / return_value are the candidate.")
    ctx.assumptions = ["the loop step lifts to the loop result by the induction in DESIGN.md C02",
                       "cost is decided under C05.a/b"]
    ctx.not_decided = []
    units = []
    n = 0
    for tu in ctx.units(lambda n: n.startswith("core") or n.startswith("repo_") or n.startswith("coro")):
        if not tu.find(A["find"]):
            continue
        c02a(ctx, tu)
        C05.c05a(ctx, tu)   # cost (C02.c): the selection compares exactly these values
        C05.c05b(ctx, tu)   # order = maximum over the named sequences
        C05.c05c(ctx, tu)   # what a matched step leaves in front of later candidates (retire_until)
        c02b(ctx, tu)
        from rules import C14
        C14.c14g(ctx, tu)   # "newest first" is the list order: insertion at the front, and moves (movable mocks) keep the order
        # what a step that has happened leaves in front of later candidates is their cost: a matched call / a watched
        # destruction retires its predecessors and, once saturated, itself (the step protocol of both consumers)
        from rules import protocol
        protocol.report(ctx, tu, lambda r: True)
        from rules import C03
        C03.c03b_carry(ctx, tu)    # "live, unsaturated" is read off the limits: IN_SEQUENCE must keep them
        n += c02d(ctx, tu)
        units.append({"unit": tu.name, "functions": len(tu.fns)})
    ctx.floor("C02.d MAKE_MOCK routing instances", n, 20)
    c02e(ctx)
    ctx.extra["units"] = units
