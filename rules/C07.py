"""C07 - FORBID_CALL: each matching call in scope is one fatal report; no other effect."""
import os
import re

from engine import facts, cc, cfg, lib
from engine.facts import erase, short_loc, CACHE
from engine.lib import A, qe
from engine.auto import cond_shape
from engine.table import Unknown
from rules.common import Oracle, ret_value
from rules import protocol, C03
from witness import c19gen

F_MIN = C03.F_MIN
F_MAX = C03.F_MAX
F_CNT = C03.F_CNT


def c07b(ctx, tu):
    protocol.report(ctx, tu, lambda r: True)   # the whole step protocol is a premise of this property
    merged = not tu.find(A["report_forbidden_call"])
    if merged:
        return c07b_merged(ctx, tu)
    for fn in tu.need(A["report_forbidden_call"]):
        sends = cfg.find_events(fn, lambda e: e["e"] == "call" and qe(e) == A["send_report"])
        ok = len(sends) == 1
        why = "expected exactly one report"
        if ok:
            bid, i, e = sends[0]
            a = e["args"]
            ok = lib.severity_of(a[0], {}) == "fatal"
            why = "forbidden calls must be reported with severity fatal"
            if ok:
                ok = a[1][:1] == ["param"] or "param" in str(a[1])
                why = "the report must carry the forbidding expectation's location"
            if ok:
                ok = fn.exit not in cfg.reach(fn, fn.entry, avoid_blocks={bid})
                why = "a path through report_forbidden_call sends no report"
            if ok:
                # text ingredients: name (param 0) and values (param 2) are streamed
                streamed = str([x for b, x in fn.events() if x["e"] == "call" and x.get("op") == "<<"])
                # ... the values either as ready text, or as the call's parameter tuple handed to the parameter printer
                printed = str([x.get("args") for b, x in fn.events() if x["e"] == "call" and
                               qe(x) in ("trompeloeil::stream_params", "trompeloeil::params_string")])
                ok = "'param', 0" in streamed and ("'param', 2" in streamed or "'param', 2" in printed)
                why = "the forbidden-call report must name the function and print the actual arguments"
        ctx.ob("C07.b.report", A["report_forbidden_call"], ok, pattern=fn.pat, unit=tu.name, detail="" if ok else why)
    # the arguments given by run_actions: own name, own loc, params_string(actual params)
    for fn in tu.need(A["run_actions"], 5):
        calls = [e for b, e in fn.events() if e["e"] == "call" and qe(e) == A["report_forbidden_call"]]
        ok = len(calls) == 1
        if ok:
            a = calls[0]["args"]
            a2 = lib.strip_casts(a[2])
            ok = "call_matcher_base" in str(a[0]) and "::name" in str(a[0]) and "::loc" in str(a[1]) and \
                (("params_string" in str(a[2]) and "'param', 0" in str(a[2])) or
                 (isinstance(a2, list) and a2[:2] == ["param", 0]))      # ... or the tuple itself
        ctx.ob("C07.b.args", A["run_actions"], ok, pattern=fn.pat, unit=tu.name, inst=fn.q,
               detail="" if ok else "the forbidden-call report must be given this expectation's name and location "
               "and the actual arguments of the call")


def c07b_merged(ctx, tu):
    """report_forbidden_call has been merged into its only caller: the same obligations are read off run_actions -
    on the is_forbidden() branch exactly one fatal report, with this expectation's loc, whose text streams this
    expectation's name and the actual arguments of the call."""
    n = 0
    if not tu.find(A["is_forbidden"], body=False):
        ctx.ob("C07.b.report", A["run_actions"] + " (forbidden branch)", None, unit=tu.name,
               detail="the forbidden test is not found under its name: the forbidden branch cannot be identified")
        return 0
    for fn in tu.need(A["run_actions"], 5):
        n += 1
        guard = [(bid, cond_shape(cfg.cond_of(fn, bid))[1]) for bid in fn.blocks if cfg.cond_of(fn, bid) is not None and
                 lib.tree_name(cond_shape(cfg.cond_of(fn, bid))[0]) == A["is_forbidden"]]
        sends = [(b, i, e) for b, i, e in cfg.find_events(fn, lambda e: e["e"] == "call" and qe(e) in (A["send_report"], A["send"]))
                 if len(guard) == 1 and cfg.edge_dominates(fn, (guard[0][0], 0 if guard[0][1] else 1), b)]
        ok = len(guard) == 1 and len(sends) == 1
        why = "expected exactly one report on the is_forbidden() branch"
        if ok:
            bid, i, e = sends[0]
            a = e["args"]
            ok = lib.severity_of(a[0], {}) == "fatal"
            why = "forbidden calls must be reported with severity fatal"
            if ok:
                ok = "call_matcher_base" in str(a[1]) and "::loc" in str(a[1])
                why = "the report must carry the forbidding expectation's location"
            if ok:
                tgt = fn.blocks[guard[0][0]]["succ"][0 if guard[0][1] else 1]
                ok = tgt is not None and fn.exit not in cfg.reach(fn, tgt, avoid_blocks={bid}) or \
                    all(lib.noreturn_call(tu, x) for x in [])
                why = "a path through the forbidden branch sends no report"
        ctx.ob("C07.b.report", A["run_actions"] + " (forbidden branch)", ok, pattern=fn.pat, unit=tu.name, inst=fn.q,
               detail="" if ok else why)
        streamed = str([x for b, x in fn.events() if x["e"] == "call" and x.get("op") == "<<"])
        decls = {d["var"]: d for b, d in fn.events() if d["e"] == "decl"}
        vals = [v for v, d in decls.items() if "params_string" in str(d.get("init")) and "'param', 0" in str(d.get("init"))]
        ok2 = "::name" in streamed and "call_matcher_base" in streamed and \
            (("params_string" in streamed and "'param', 0" in streamed) or any(("['var', %d," % v) in streamed for v in vals))
        ctx.ob("C07.b.args", A["run_actions"], ok2, pattern=fn.pat, unit=tu.name, inst=fn.q,
               detail="" if ok2 else "the forbidden-call report must be given this expectation's name and location "
               "and the actual arguments of the call")
    return n


def c07c(ctx, tu):
    """(min,max,count) = (0,0,0) is the only state of a forbidding expectation (no increment is reachable
    on its branch, C07.b): it is satisfied and saturated, hence silent at end of life (C04.a)."""
    try:
        o = Oracle(members=C03.members(tu, 0, 0, 0))
        vals = {}
        for name in (A["is_satisfied"], A["is_saturated"], A["is_forbidden"]):
            for fn in tu.need(name):
                vals[name] = bool(ret_value(fn, o))
        ok = all(vals.values())
        ctx.ob("C07.c", "forbidding expectation state (0,0,0)", ok, unit=tu.name,
               detail="" if ok else "a FORBID_CALL expectation must be forbidden, satisfied and saturated: %s" % vals)
    except Unknown as u:
        ctx.ob("C07.c", "forbidding expectation state (0,0,0)", None, unit=tu.name, detail="cannot interpret: %s" % u)


def c07e(ctx):
    """compile-time bans on actions / IN_SEQUENCE for forbidden calls, both spellings, both orders"""
    progs = []
    for sig in ("V", "I"):
        p = c19gen.Program("c07_neg_" + sig)
        for macro, chain, rx, what in c19gen.forbid_negatives(sig):
            p.add(macro, chain, sig, expect=rx, what=what)
        seen = set()
        for base in c19gen.legal_chains(sig, 4):
            if len(base) > 2:
                continue
            for chain, rx, what in c19gen.illegal_insertions(base, sig):
                if what == "TIMES(0) with actions" and (chain, rx) not in seen:
                    seen.add((chain, rx))
                    p.add("REQUIRE_CALL", chain, sig, expect=rx, what=what)
        progs.append(p)
    pos = c19gen.Program("c07_pos")
    for sig in ("V", "I", "R"):
        pos.add("FORBID_CALL", (), sig)
        pos.add("FORBID_CALL", ("W",), sig)
        pos.add("REQUIRE_CALL", ("T0",), sig)
        pos.add("REQUIRE_CALL", ("W", "T0"), sig)
    cfgs = [("clang++", "c++17")] if ctx.tier == "quick" else [(c, s) for c in ("clang++", "g++") for s in ("c++14", "c++20")]
    jobs, meta = [], []
    os.makedirs(facts.gen_dir(), exist_ok=True)
    for p in progs + [pos]:
        path = os.path.join(facts.gen_dir(), p.tag + ".cpp")
        with open(path, "w") as fh:
            fh.write(p.source())
        for c, s in cfgs:
            jobs.append((cc.syntax_cmd(c, s, path), None))
            meta.append((p, path, c, s))
    n = 0
    for (p, path, c, s), (rc, out) in zip(meta, cc.run_many(jobs)):
        by_line = c19gen.attribute(c19gen.diag_blocks(out), os.path.basename(path))
        for ln, case in p.cases.items():
            n += 1
            errs = by_line.get(ln, [])
            name = "%s %s:%s" % (case["macro"], case["sig"], " ".join(case["chain"]))
            if case["expect"] is None:
                ctx.ob("C07.e", "legal: " + name, not errs, unit="%s@%s" % (c, s),
                       detail="" if not errs else "a legal forbidding expectation is rejected: " + case["text"])
            else:
                hit = any(re.search(case["expect"], e) for e in errs)
                ctx.ob("C07.e", "illegal: " + name, hit, unit="%s@%s" % (c, s),
                       detail="" if hit else "an action / sequence on a forbidden call is not rejected with the "
                       "documented diagnostic /%s/: %s" % (case["expect"], case["text"]))
    return n


def run(ctx):
    ctx.explanation = (
        "C07.a token-equality of every FORBID_CALL spelling with REQUIRE_CALL + TIMES(0) after preprocessing; "
        "C07.b protocol automaton on run_actions: the forbidden-call report happens on the is_forbidden() edge "
        "before any count, list, sequence or action event, and a path ending in a fatal report has changed "
        "nothing (so the forbidding expectation stays active and every later matching call takes the same "
        "path); report_forbidden_call is exactly one fatal report carrying location, name and actual arguments; "
        "C07.c the predicates evaluated at (0,0,0) make it satisfied and saturated; C07.e compile-time bans "
        "(compiler-decided witnesses).")
    ctx.assumptions = ["conforming reporter: the fatal report ends the call"]
    ctx.not_decided = ["which calls the forbidding expectation is the designated candidate for is C01/C02"]
    C03.macro_tables(ctx, ("C07.a",))
    units = []
    for tu in ctx.units(lambda n: n.startswith("core") or n.startswith("repo_ct") or n.startswith("coro")):
        if not tu.find(A["run_actions"]):
            continue
        c07b(ctx, tu)
        c07c(ctx, tu)
        C03.c03b(ctx, tu)    # TIMES(0) / RT_TIMES(0) must really set the upper limit 0
        C03.c03a(ctx, tu)    # ... and is_forbidden (base and every override) must read it: max == 0
        from rules import C04
        C04.c04b(ctx, tu)    # (C01.e) a forbid stops shadowing when its lifetime ends: unlinked on every path
        from rules import C14
        C14.c14g(ctx, tu)    # a newer forbid keeps shadowing an older allow after the mock was moved: list order kept
        units.append({"unit": tu.name, "functions": len(tu.fns)})
    n = c07e(ctx)
    ctx.floor("C07.e compile-time cases", n, 30)
    ctx.extra["units"] = units
