"""C18 - value printing is null-safe, structural, and keeps the stream's formatting."""
import os
import re

from engine import facts, cc, cfg, lib
from engine.auto import cond_shape
from engine.facts import erase, short_loc, CACHE
from engine.lib import qe
from engine.table import Interp, Unknown

NS = "trompeloeil::"


def c18a(ctx, tu):
    """null guard dominates every printer dispatch; structural printers print elements through print()"""
    n = 0
    for fn in tu.find(NS + "print"):
        if len(fn.rec["params"]) != 2 or fn.rec["params"][1]["t"] == "std::nullptr_t":
            continue
        n += 1
        disp = cfg.find_events(fn, lambda e: e["e"] == "call" and qe(e) == NS + "printer::print")
        g = [bid for bid in fn.blocks if cfg.cond_of(fn, bid) is not None and
             lib.tree_name(cond_shape(cfg.cond_of(fn, bid))[0]) == NS + "is_null"]
        ok = len(disp) == 1 and len(g) == 1
        if ok:
            t, pol = cond_shape(cfg.cond_of(fn, g[0]))
            ok = len(t[3]) == 1 and "'param', 1," in str(t[3][0])
            ok = ok and cfg.edge_dominates(fn, (g[0], 1 if pol else 0), disp[0][0])
            nul = cfg.find_events(fn, lambda e: e["e"] == "call" and e.get("op") == "<<" and ["str", "nullptr"] in e.get("args", []))
            ok = ok and len(nul) == 1 and cfg.edge_dominates(fn, (g[0], 0 if pol else 1), nul[0][0])
        ctx.ob("C18.a", NS + "print", ok, pattern=fn.pat, unit=tu.name, inst=fn.q,
               detail="" if ok else "print() must test is_null(value) first: 'nullptr' on the null edge, the printer only "
               "on the non-null edge")
    # structural printers: every element goes through print(); nothing but separators is inserted directly
    for fn in tu.fns.values():
        if not fn.has_body or not fn.q.startswith(NS + "streamer<") or fn.kind in ("ctor", "dtor"):
            continue
        m = re.match(r"trompeloeil::streamer<(.*), (true|false), (true|false)>::", fn.q)
        if not m or m.group(2) == "true":
            continue
        if m.group(2) == "false" and m.group(3) == "false" and not (m.group(1).startswith("std::tuple<") or m.group(1).startswith("std::pair<")):
            continue  # opaque type: hexdump (C18.d)
        n += 1
        bad = None
        prints = 0
        for b, e in fn.events():
            if e["e"] != "call":
                continue
            if qe(e) == NS + "print":
                prints += 1
            if e.get("op") == "<<":
                a = e.get("args") or []
                rhs = a[1] if len(a) > 1 else None
                if not literal_or_sep(fn, rhs):
                    bad = "an element is inserted into the stream directly (%s) instead of through print(), which " \
                          "bypasses the null guard at this nesting depth" % short_loc(e.get("loc", ""))
        is_lambda = bool(fn.rec.get("lambda"))
        outer_coll = m.group(3) == "true" and not is_lambda
        if bad is None and not outer_coll and prints == 0 and not fn.q.endswith("::print") and "tuple<>" not in fn.q:
            bad = "no element is printed"
        if bad is None and m.group(1).startswith("std::pair<") and prints != 2:
            bad = "a pair must print both members through print()"
        ctx.ob("C18.a.struct", erase(fn.q), bad is None, pattern=fn.pat, unit=tu.name, inst=fn.q,
               detail="" if bad is None else bad)
    return n


def literal_or_sep(fn, t):
    if not isinstance(t, list) or not t:
        return False
    if t[0] in ("str", "char"):
        return True
    if t[0] == "?:":
        # a choice between two separators
        return literal_or_sep(fn, t[2]) and literal_or_sep(fn, t[3])
    if t[0] == "cast":
        return literal_or_sep(fn, t[2])
    if t[0] == "var":
        for b, e in fn.events():
            if e["e"] == "decl" and e["var"] == t[1]:
                return "char *" in e.get("type", "") or "char*" in e.get("type", "")
        # a variable captured by the collection lambda: look it up by name in the enclosing function
        outer = fn.q.split("::(anonymous class)")[0]
        outer = re.sub(r"\(std::ostream &.*$", "", outer)
        for g in fn.tu.fns.values():
            if g.has_body and g.q == outer:
                for b, e in g.events():
                    if e["e"] == "decl" and e.get("name") == t[2]:
                        return "char *" in e.get("type", "")
        return False
    if t[0] == "member" and "(anonymous" in t[1]:
        return True   # captured separator of the collection lambda
    if t[0] in ("call",) and "exchange" in t[2]:
        return True
    return False


SENTRY = NS + "stream_sentry"


class _Stream:
    """abstract formatting state of the stream a sentry guards: width, flags, fill - the three getter/setter pairs
    of std::ios_base / std::basic_ios with their standard meaning (the setter returns the previous value)"""

    def __init__(self, width, flags, fill):
        self.st = {"width": width, "flags": flags, "fill": fill}
        self.touched_other = False

    def calls(self):
        from rules.common import _args

        def acc(key):
            def h(t, it):
                a = _args(t)
                if len(a) == 1:
                    return self.st[key]
                old = self.st[key]
                self.st[key] = it.ev(a[1])
                return old
            return h

        def bor(t, it):
            vals = [it.ev(x) for x in _args(t)]
            out = frozenset()
            for v in vals:
                if not (isinstance(v, tuple) and v and v[0] == "flags"):
                    raise Unknown("operand of | : %r" % (v,))
                out |= v[1]
            return ("flags", out)
        return {"std::ios_base::width": acc("width"), "std::ios_base::flags": acc("flags"),
                "std::basic_ios::fill": acc("fill"), "std::operator|": bor}


def _sentry_oracle(stream, members):
    from rules.common import Oracle
    base = Oracle(calls=stream.calls(), members=members, params={0: ("obj", "stream")}, any_member=True)

    def oracle(kind, t, it):
        if kind == "gvar" and str(t[1]).startswith("std::ios_base::"):
            return ("flags", frozenset([str(t[1]).rsplit("::", 1)[-1]]))
        return base(kind, t, it)
    return oracle


def c18b(ctx, tu):
    """stream_sentry, decided on an abstract stream: after construction the stream is (width 0, flags dec|left, fill
    ' ') whatever it was, and after destruction it is what it was before construction whatever the code in between
    did to it - for every combination of changed / unchanged properties (an unconditional restore)."""
    DEC_LEFT = ("flags", frozenset(["dec", "left"]))
    origs = [(7, ("flags", frozenset(["hex", "right", "showbase"])), 42), (0, DEC_LEFT, 32)]
    ctors = [f for f in tu.find(SENTRY + "::stream_sentry") if not f.rec.get("special")]
    dtors = tu.find(SENTRY + "::~stream_sentry")
    for fn in ctors:
        why = None
        saved_by_orig = []
        try:
            for o in origs:
                stream = _Stream(*o)
                it = Interp(fn, _sentry_oracle(stream, {}))
                it.run()
                st = stream.st
                if (st["width"], st["flags"], st["fill"]) != (0, DEC_LEFT, 32) and why is None:
                    why = "the sentry must install width 0, flags dec|left and fill ' ' (decimal, unpadded leaves); from " \
                          "%s it leaves the stream at %s" % (o, (st["width"], st["flags"], st["fill"]))
                saved = {erase(lv[1]): v for k, lv, v in it.effects if k == "store" and lv[0] == "member"}
                vals = [v for v in saved.values()]
                if not all(x in vals for x in o) and why is None:
                    why = "the sentry must save the width, the flags and the fill the stream had; it keeps %s" % sorted(
                        str(v) for v in vals)
                saved_by_orig.append(saved)
            ctx.ob("C18.b", SENTRY + "::stream_sentry", why is None, pattern=fn.pat, unit=tu.name, detail="" if why is None else why)
        except Unknown as u:
            ctx.ob("C18.b", SENTRY + "::stream_sentry", None, pattern=fn.pat, unit=tu.name, detail="cannot interpret: %s" % u)
            continue
        for dt in dtors:
            why = None
            try:
                for o, saved in zip(origs, saved_by_orig):
                    other = (3, ("flags", frozenset(["oct", "internal"])), 48)
                    for mask in range(8):
                        cur = tuple(other[i] if mask & (1 << i) else o[i] for i in range(3))
                        stream = _Stream(*cur)
                        Interp(dt, _sentry_oracle(stream, dict(saved))).run()
                        st = stream.st
                        if (st["width"], st["flags"], st["fill"]) != o and why is None:
                            what = [n for i, n in enumerate(("width", "flags", "fill")) if (st["width"], st["flags"], st["fill"])[i] != o[i]]
                            why = "the sentry must restore width, flags and fill to what they were on every path: with the " \
                                  "stream at %s before the sentry and %s at its end, %s is not restored" % (o, cur, ", ".join(what))
                ctx.ob("C18.b", SENTRY + "::~stream_sentry", why is None, pattern=dt.pat, unit=tu.name, detail="" if why is None else why)
            except Unknown as u:
                ctx.ob("C18.b", SENTRY + "::~stream_sentry", None, pattern=dt.pat, unit=tu.name, detail="cannot interpret: %s" % u)


def c18c(ctx, tu):
    """direct insertions of values happen only while a sentry local is alive"""
    n = 0
    targets = [f for f in tu.fns.values() if f.has_body and (
        re.match(r"trompeloeil::streamer<.*, true, (true|false)>::print$", f.q) or f.qe == NS + "hexdump")]
    for fn in targets:
        n += 1
        sd = cfg.find_events(fn, lambda e: e["e"] == "decl" and e.get("type") == SENTRY)
        ins = cfg.find_events(fn, lambda e: e["e"] == "call" and e.get("op") == "<<")
        ok = len(sd) == 1 and bool(ins)
        if ok:
            sb, si, se = sd[0]
            for b, i, e in ins:
                if not ((b == sb and i > si) or (b != sb and cfg.block_dominates(fn, sb, b))):
                    ok = False
            # the sentry lives to the end of the function (destroyed in the exit path, after the insertions)
            dt = cfg.find_events(fn, lambda e: e["e"] == "dtor" and e.get("kind") == "auto" and e.get("var") == se["var"])
            ok = ok and bool(dt)
            ok = ok and "'param'" in str(se.get("init"))
        ctx.ob("C18.c", erase(fn.q), ok, pattern=fn.pat, unit=tu.name, inst=fn.q,
               detail="" if ok else "a value is inserted into the report stream without a stream sentry in scope: the "
               "stream's base / fill / width would leak into the value, or the value's manipulators into the stream")
    # the hexdump lambda inserts through the captured stream inside hexdump's sentry scope: covered by hexdump
    return n


def c18d(ctx, tu):
    n = 0
    for fn in tu.fns.values():
        if not fn.has_body:
            continue
        m = re.match(r"trompeloeil::streamer<(.*), false, false>::print$", fn.q)
        if not m or m.group(1).startswith("std::tuple<") or m.group(1).startswith("std::pair<"):
            continue
        n += 1
        calls = [e for b, e in fn.events() if e["e"] == "call" and qe(e) == NS + "hexdump"]
        ok = len(calls) == 1
        if ok:
            a = calls[0]["args"]
            ok = a[0] == ["u", "&", ["param", 1, fn.rec["params"][1]["n"]]] and a[1][:1] == ["sizeof"] and \
                a[1][1] == m.group(1) and a[2][:2] == ["param", 0]
        ctx.ob("C18.d", NS + "streamer<T,false,false>::print", ok, pattern=fn.pat, unit=tu.name, inst=fn.q,
               detail="" if ok else "an opaque value must be dumped as exactly sizeof(T) bytes starting at its address")
    for fn in tu.find(NS + "hexdump"):
        c18d_walk(ctx, tu, fn)
        c18d_layout(ctx, tu, fn)
    return n


WIDE_INT = {"short", "unsigned short", "int", "unsigned int", "long", "unsigned long", "long long", "unsigned long long"}
BYTE_T = {"unsigned char", "std::byte"}


def _unq(t):
    t = re.sub(r"\b(const|volatile)\b", "", t or "").replace("&", "").strip()
    return re.sub(r"\s+", " ", t)


def _ptr_t(t):
    """pointee type text of a (possibly const) pointer type, else None"""
    t = re.sub(r"\s*\bconst$", "", (t or "").strip()).rstrip()
    return t[:-1].rstrip() if t.endswith("*") else None


def _has(tree, pred):
    return any(pred(t) for t in lib.subtrees(tree))


def c18d_layout(ctx, tu, fn):
    """Line breaks of the hex dump, for every size in the property's family (1..40 bytes): a line break follows the
    header exactly when the object is larger than 8 bytes, and follows byte number k (0-based) exactly when
    k mod 16 == 15.  Each branch that guards the insertion of a newline is found (in the function or in a lambda it
    defines), classified by what its condition reads - the size parameter, or a counter the walk increments - and its
    condition is interpreted over the whole domain.  Guards that cannot be classified are analysis broken."""
    from engine.table import Interp, Unknown
    from rules.common import Oracle
    bodies = [fn]
    for b, e in fn.events():
        if e["e"] == "lambda" and e.get("callop") in tu.fns:
            bodies.append(tu.fns[e["callop"]])
    size_idx = [i for i, p in enumerate(fn.rec["params"]) if _unq(p["t"]) in ("unsigned long", "size_t", "std::size_t", "unsigned long long", "unsigned int")]
    # named constants of the function (const locals with a literal value), also when read inside a lambda
    consts = {}
    for b, e in fn.events():
        if e["e"] == "decl" and (e.get("type") or "").startswith("const ") and isinstance(e.get("init"), list):
            try:
                v = Interp(fn, Oracle()).ev(e["init"])
                if isinstance(v, int) and not isinstance(v, bool):
                    consts[e["name"]] = v
            except Unknown:
                pass

    def seed(it, cond):
        for t in lib.subtrees(cond):
            if isinstance(t, list) and t[:1] == ["var"] and len(t) > 2 and t[2] in consts:
                it.env[t[1]] = consts[t[2]]
    guards = []
    for f in bodies:
        for blk in f.rec["blocks"]:
            if not any(e["e"] == "call" and e.get("op") == "<<" and ["char", 10] in (e.get("args") or []) for e in blk["ev"]):
                continue
            preds = [pb for pb in f.rec["blocks"] if blk["id"] in (pb.get("succ") or []) and (pb.get("term") or {}).get("kind") == "if"]
            if len(preds) != 1:
                ctx.ob("C18.d.layout", NS + "hexdump", None, pattern=fn.pat, unit=tu.name,
                       detail="a newline is inserted at a place this rule cannot attribute to one guard")
                return
            pb = preds[0]
            guards.append((f, pb, pb["succ"].index(blk["id"]) == 0))
    head = row = None
    why = None
    for f, pb, on_true in guards:
        cond = pb["term"]["cond"]
        leaves = [t for t in lib.subtrees(cond) if isinstance(t, list) and t[:1] in (["param"], ["oparam"], ["var"])]
        names = set((t[0], t[1]) for t in leaves)
        reads_size = any(t[0] in ("param", "oparam") and f is fn and t[1] in size_idx for t in leaves) or \
            any(t[0] == "oparam" and t[1] in size_idx for t in leaves)
        vars_ = [t for t in leaves if t[0] == "var" and not (len(t) > 2 and t[2] in consts)]
        try:
            if reads_size and not vars_:
                if head is not None:
                    why = why or "more than one guard on the size decides the line break after the header"
                head = True
                for size in range(1, 41):
                    o = Oracle(params={i: size for i in size_idx}, any_param=True)
                    it = Interp(f, o)
                    seed(it, cond)
                    got = bool(it.truth(it.ev(cond))) == on_true
                    if got != (size > 8) and why is None:
                        why = "a %d-byte object %s a line break after the header" % (size, "gets" if got else "does not get")
            elif len(set(t[1] for t in vars_)) == 1 and not reads_size:
                vid = vars_[0][1]
                incs = [(b2["id"], i) for b2 in f.rec["blocks"] for i, e in enumerate(b2["ev"])
                        if e["e"] == "incdec" and e.get("op") == "++" and isinstance(e.get("x"), list) and e["x"][:2] == ["var", vid]]
                if len(incs) != 1:
                    raise Unknown("the counter of the row guard is not incremented exactly once per byte")
                ib = incs[0][0]
                pre = ib == pb["id"] or (pb["id"] in cfg.reach(f, ib) and ib not in cfg.reach(f, pb["id"]))
                if row is not None:
                    why = why or "more than one guard decides the line break after a byte"
                row = True
                for k in range(0, 40):
                    it = Interp(f, Oracle(any_param=True))
                    seed(it, cond)
                    it.env[vid] = k + 1 if pre else k
                    got = bool(it.truth(it.ev(cond))) == on_true
                    if got != (k % 16 == 15) and why is None:
                        why = "byte number %d %s followed by a line break" % (k, "is" if got else "is not")
            else:
                raise Unknown("a newline guard reads neither just the size nor just one counter")
        except Unknown as u:
            ctx.ob("C18.d.layout", NS + "hexdump", None, pattern=fn.pat, unit=tu.name, detail="cannot interpret: %s" % u)
            return
    if head is None or row is None:
        ctx.ob("C18.d.layout", NS + "hexdump", None, pattern=fn.pat, unit=tu.name,
               detail="the guards of the header / row line breaks were not both found")
        return
    ctx.ob("C18.d.layout", NS + "hexdump", why is None, pattern=fn.pat, unit=tu.name,
           detail="" if why is None else "hex-dump line breaks for sizes 1..40 (after the header iff size > 8, after every "
           "16th byte): " + why)


def c18d_walk(ctx, tu, fn):
    """hexdump visits exactly the bytes [begin, begin+size), each once and in address order (C18.d), reads each as
    an unsigned 8-bit object and hands it to a numeric inserter through types that all represent 0..255
    (C18.d.bytes).  Two iteration idioms are understood - a mini_span over (begin, size) traversed by
    std::for_each / range-for, and a counted for loop indexing the byte pointer; anything else is reported as
    analysis broken, never as a verdict."""
    evs = [(b["id"], e) for b, e in fn.flow_events()] if hasattr(fn, "flow_events") else [(b["id"], e) for b, e in fn.events()]
    decls = {e["var"]: e for _, e in evs if e["e"] == "decl"}
    is_begin = lambda t: t[:2] == ["param", 0]
    # byte ranges: pointer / span variables derived from `begin`
    ranges = {}          # var -> pointee type
    for v, d in decls.items():
        t = d.get("type") or ""
        init = d.get("init")
        if not _has(init, is_begin):
            continue
        if "mini_span" in t:
            m = re.search(r"mini_span<(.*)>$", t.strip())
            ranges[v] = ("span", _unq(m.group(1)) if m else "?", init)
        elif _ptr_t(t) is not None:
            ranges[v] = ("ptr", _unq(_ptr_t(t)), init)
    pointee = set(r[1] for r in ranges.values())
    casts = [c for _, e in evs for k in ("args", "init", "x") for c in lib.subtrees(e.get(k))
             if c[:1] == ["cast"] and c[1].rstrip().endswith("*") and _has(c[2:], is_begin)]
    pointee |= set(_unq(c[1].rstrip()[:-1]) for c in casts)
    if not pointee:
        raise lib.AnalysisBroken("C18.d: hexdump never converts `begin` to a byte pointer")
    walk_why = None
    byte_why = None
    if not pointee <= BYTE_T:
        byte_why = "the object's bytes are read through `%s`; only unsigned char (uint8_t) reads a byte as 0..255" \
            % sorted(pointee - BYTE_T)[0]

    # pointers taken from a span over (begin, size): first = span.begin()
    span_ok = [v for v, r in ranges.items() if r[0] == "span" and r[2][:1] == ["ctor"] and len(r[2]) > 3 and len(r[2][3]) == 2
               and lib.strip_casts(r[2][3][0])[:2] == ["param", 0] and r[2][3][1][:2] == ["param", 1]]
    for v, d in decls.items():
        init = lib.strip_elidable(d.get("init")) if d.get("init") is not None else None
        if isinstance(init, list) and init[:1] == ["mcall"] and erase(init[2]) == NS + "mini_span::begin" and \
                init[3][:1] == ["var"] and init[3][1] in span_ok and _ptr_t(d.get("type")) is not None:
            ranges[v] = ("ptr", _unq(_ptr_t(d.get("type"))), init)

    def is_range(t):
        return (t[:1] == ["var"] and t[1] in ranges and ranges[t[1]][0] == "ptr") or \
            (t[:1] == ["cast"] and _has(t[2:], is_begin)) or \
            (t[:1] == ["mcall"] and erase(t[2]) == NS + "mini_span::begin" and t[3][:1] == ["var"] and t[3][1] in span_ok)

    def is_size(t):
        """`size`, or size() of a span over (begin, size) whose size() is end_ - begin_"""
        if t[:2] == ["param", 1]:
            return True
        if t[:1] == ["mcall"] and erase(t[2]) == NS + "mini_span::size" and t[3][:1] == ["var"] and t[3][1] in span_ok:
            for m in tu.find_re(r"trompeloeil::mini_span::size$"):
                rets = [e.get("x") for b, e in m.events() if e["e"] == "return"]
                x = lib.strip_casts(rets[0]) if len(rets) == 1 else None
                if not (isinstance(x, list) and x[:2] == ["b", "-"] and str(x[2]).find("::end_") >= 0 and
                        str(x[3]).find("::begin_") >= 0):
                    return False
            return True
        return False

    sinks = []           # (function, event, types on the way)
    idiom = None
    spans = [v for v, r in ranges.items() if r[0] == "span"]
    counted = any(b.get("term", {}).get("kind") in ("for", "while") and isinstance(b["term"].get("cond"), list) and
                  b["term"]["cond"][:1] == ["b"] and b["term"]["cond"][1] in ("<", "!=") and
                  b["term"]["cond"][2][:1] == ["var"] and is_size(lib.strip_casts(b["term"]["cond"][3]))
                  for b in fn.rec["blocks"])
    if spans and not counted:
        idiom = "span"
        v = spans[0]
        init = ranges[v][2]
        a = init[3] if init[:1] == ["ctor"] and len(init) > 3 else []
        if not (len(a) == 2 and lib.strip_casts(a[0])[:2] == ["param", 0] and a[1][:2] == ["param", 1]):
            walk_why = "the byte span is not constructed from (begin, size)"
        # the span type itself: [address, address + size)
        for c in tu.find_re(r"trompeloeil::mini_span::mini_span$"):
            if c.rec.get("implicit") or len(c.rec.get("params", ())) != 2:
                continue
            inits = {e["field"].rsplit("::", 1)[-1]: e.get("x") for b, e in c.events() if e["e"] == "init" and "field" in e}
            ok = inits.get("begin_", [])[:2] == ["param", 0] and \
                inits.get("end_") in (["b", "+", ["param", 0, c.rec["params"][0]["n"]], ["param", 1, c.rec["params"][1]["n"]]],)
            if not ok and walk_why is None:
                walk_why = "mini_span(address, size) does not delimit [address, address + size)"
        for nm, fld in (("begin", "begin_"), ("end", "end_")):
            for m in tu.find_re(r"trompeloeil::mini_span::%s$" % nm):
                rets = [e.get("x") for b, e in m.events() if e["e"] == "return"]
                if not (len(rets) == 1 and rets[0][:1] == ["member"] and rets[0][1].endswith("::" + fld)) and walk_why is None:
                    walk_why = "mini_span::%s() does not return %s" % (nm, fld)
        # traversal: std::for_each(span.begin(), span.end(), lambda) or a range-for over the span
        fe = [e for _, e in evs if e["e"] == "call" and erase(e.get("q", "")) == "std::for_each"]
        rf = [b for b in fn.rec["blocks"] if b.get("term", {}).get("kind") == "rangefor"]
        if fe:
            a = fe[0]["args"]
            ok = len(a) == 3 and a[0][:1] == ["mcall"] and a[0][2].endswith("::begin") and a[0][3][:2] == ["var", v] and \
                a[1][:1] == ["mcall"] and a[1][2].endswith("::end") and a[1][3][:2] == ["var", v] and \
                lib.strip_elidable(a[2])[:1] == ["lambda"]
            if not ok and walk_why is None:
                walk_why = "for_each does not traverse [span.begin(), span.end())"
            for _, e in evs:
                if e["e"] == "lambda" and e.get("callop") in tu.fns:
                    lam = tu.fns[e["callop"]]
                    for b2, e2 in lam.events():
                        if e2["e"] == "call" and e2.get("op") == "<<" and e2.get("args") and \
                                _has(e2["args"][-1], lambda t: t[:2] == ["param", 0]):
                            sinks.append((lam, e2, [_unq(lam.rec["params"][0]["t"])]))
        elif rf:
            rng = [d for d in decls.values() if (d.get("name") or "").startswith("__range")]
            if not (rng and _has(rng[0].get("init"), lambda t: t[:2] == ["var", v])) and walk_why is None:
                walk_why = "the range-for does not traverse the byte span"
            l = cfg.loop_containing(fn, rf[0]["id"])
            if l is not None and l["exit_edges"] and walk_why is None:
                walk_why = "the byte loop can be left before `size` bytes have been dumped"
            elems = set(d["var"] for d in decls.values() if _has(d.get("init"), lambda t: t[:1] == ["u"] and t[1] == "*" or
                                                                  (t[:1] == ["opcall"] and t[3] == "*")))
            for _, e in evs:
                if e["e"] == "call" and e.get("op") == "<<" and e.get("args") and \
                        _has(e["args"][-1], lambda t: t[:1] == ["var"] and t[1] in elems):
                    sinks.append((fn, e, [_unq(decls[x].get("type")) for x in elems]))
        else:
            idiom = None
    if idiom is None:
        # counted loop: for (i = 0; i < size; ++i) ... ptr[i]
        for b in fn.rec["blocks"]:
            t = b.get("term", {})
            if t.get("kind") not in ("for", "while"):
                continue
            c = t.get("cond") or []
            if not (c[:1] == ["b"] and c[1] in ("<", "!=") and c[2][:1] == ["var"] and is_size(lib.strip_casts(c[3]))):
                continue
            idiom = "index"
            i = c[2][1]
            d = decls.get(i)
            l = cfg.loop_containing(fn, b["id"])
            mods = [e for _, e in evs if (e["e"] == "incdec" and e.get("x", [])[:2] == ["var", i]) or
                    (e["e"] == "assign" and str(e.get("lhs", e.get("x")))[:20].find("'var', %d," % i) >= 0)]
            if d is None or d.get("init") != ["int", 0]:
                walk_why = "the byte index does not start at 0"
            elif len(mods) != 1 or mods[0]["e"] != "incdec" or mods[0].get("op") != "++":
                walk_why = "the byte index is not advanced by exactly one per iteration"
            elif l is None or l["exit_edges"]:
                walk_why = "the byte loop can be left before `size` bytes have been dumped"
            else:
                inc_b = [bid for bid, e in evs if e is mods[0]][0]
                if t.get("kind") != "for" or inc_b not in l["body"]:
                    walk_why = "the increment is not the loop's own step"
            is_elem = lambda tr: tr[:1] == ["index"] and is_range(tr[1]) and tr[2][:2] == ["var", i]
            elems = set(v for v, dd in decls.items() if _has(dd.get("init"), is_elem))
            for _, e in evs:
                if e["e"] == "call" and e.get("op") == "<<" and e.get("args"):
                    a = e["args"][-1]
                    if _has(a, is_elem) or _has(a, lambda tr: tr[:1] == ["var"] and tr[1] in elems):
                        ts = [_unq(decls[x].get("type")) for x in elems if _has(a, lambda tr: tr[:2] == ["var", x])]
                        for x in elems:
                            ts += [_unq(cc_[1]) for cc_ in lib.subtrees(decls[x].get("init")) if cc_[:1] == ["cast"]
                                   and not cc_[1].rstrip().endswith("*")]
                        sinks.append((fn, e, ts))
            break
    if idiom is None:
        raise lib.AnalysisBroken("C18.d: hexdump's iteration over the bytes uses an idiom this rule does not model")
    if not sinks:
        raise lib.AnalysisBroken("C18.d: no per-byte insertion found in hexdump")
    if len(sinks) != 1 and walk_why is None:
        walk_why = "a byte is inserted %d times per visit" % len(sinks)
    ctx.ob("C18.d", NS + "hexdump", walk_why is None, pattern=fn.pat, unit=tu.name,
           detail="" if walk_why is None else "hexdump must walk exactly the `size` bytes starting at `begin`: " + walk_why)
    for f, e, types in sinks:
        a = e["args"][-1]
        types = list(types) + [_unq(c[1]) for c in lib.subtrees(a) if c[:1] == ["cast"] and not c[1].rstrip().endswith("*")]
        callee = tu.fns.get(e.get("callee"))
        ins = _unq(callee.rec["params"][-1]["t"]) if callee is not None and callee.rec.get("params") else ""
        badt = [t for t in types if t not in WIDE_INT and t not in BYTE_T]
        if byte_why is None and ins not in WIDE_INT:
            byte_why = "a byte is inserted through operator<<(%s), which does not print it as a number" % (ins or "?")
        elif byte_why is None and badt:
            byte_why = "a byte passes through type `%s` on its way to the stream, which does not represent 0..255" % badt[0]
    ctx.ob("C18.d.bytes", NS + "hexdump", byte_why is None, pattern=fn.pat, unit=tu.name,
           detail="" if byte_why is None else byte_why)



def _norm_t(t):
    t = re.sub(r"\bconst\b|\bvolatile\b", "", t or "")
    return re.sub(r"[\s&()]", "", t)


def _targs18(t):
    i = t.find("<")
    if i < 0:
        return []
    depth, cur, out = 0, "", []
    for ch in t[i:]:
        if ch == "<":
            depth += 1
            if depth == 1:
                continue
        elif ch == ">":
            depth -= 1
            if depth == 0:
                break
        if ch == "," and depth == 1:
            out.append(cur.strip())
            cur = ""
        else:
            cur += ch
    if cur.strip():
        out.append(cur.strip())
    return out


SEQ_CONTAINERS = ("std::vector<", "std::array<", "std::list<", "std::deque<", "std::set<", "std::multiset<",
                  "std::forward_list<", "std::initializer_list<", "std::unordered_set<")
MAP_CONTAINERS = ("std::map<", "std::multimap<", "std::unordered_map<")


def element_type(c):
    """the element type of a collection type, for the type families whose element type can be read off the name"""
    c = c.strip()
    m = re.match(r"^(.*?)\s*\[\d*\]((?:\[\d*\])*)$", c)
    if m and "<" not in m.group(1).split("[")[0][-1:]:
        return m.group(1) + m.group(2)
    if c.startswith(SEQ_CONTAINERS):
        a = _targs18(c)
        return a[0] if a else None
    if c.startswith(MAP_CONTAINERS):
        a = _targs18(c)
        return "std::pair<const %s, %s>" % (a[0], a[1]) if len(a) >= 2 else None
    return None


def c18a_constfree(ctx, tu):
    """Which printer a value gets is decided on its type without top-level const (print() takes `T const&` and deduces
    T): user specialisations of printer<X> and the pair / tuple streamers are written for X, not for const X.  No
    instantiation of print / printer / streamer in the units has a top-level-const value type - in particular not
    for the reference_wrapper<const X> in which the arguments of a mock call arrive."""
    n = 0
    seen = set()
    for fn in tu.fns.values():
        m = re.match(r"trompeloeil::(print|printer|streamer)<(.*)$", fn.q)
        if not m or not fn.is_lib:
            continue
        a = _targs18(fn.q[fn.q.index("<"):])
        if not a:
            continue
        key = (m.group(1), a[0])
        if key in seen:
            continue
        seen.add(key)
        n += 1
        bad = re.match(r"^const [^*]*$", a[0]) is not None and "reference_wrapper" not in a[0]
        if bad:
            ctx.ob("C18.a.const", "%s<%s>" % (m.group(1), erase(a[0])), False, pattern=fn.pat, unit=tu.name, inst=fn.q,
                   detail="the printer is selected for the const-qualified type %s: a user printer<X> / the pair and tuple "
                   "printers do not apply to it, and the value is hex-dumped or streamed instead" % a[0])
    ctx.ob("C18.a.const", "printer selection on the unqualified value type", True, pattern="include/trompeloeil/mock.hpp",
           unit=tu.name, detail="")
    return n


def c18a_nested(ctx, tu):
    """Nested collections are printed element-wise: what the collection printer hands to print() for each element has
    the collection's ELEMENT TYPE - not a decayed (array -> pointer), sliced or converted one - so an inner array /
    container reaches the collection printer again and an inner pointer reaches the null guard."""
    n = 0
    for fn in tu.fns.values():
        if not fn.has_body or not fn.q.startswith(NS + "streamer<") or not fn.rec.get("lambda"):
            continue
        m = re.match(r"trompeloeil::streamer<(.*), (true|false), (true|false)>::", fn.q)
        if not m or m.group(2) == "true" or m.group(3) != "true":
            continue
        pr = [e for b, e in fn.events() if e["e"] == "call" and qe(e) == NS + "print" and e.get("callee") in tu.fns]
        if not pr:
            continue
        want = element_type(m.group(1))
        if want is None:
            continue
        n += 1
        got = tu.fns[pr[0]["callee"]].rec["params"][-1]["t"]
        ok = _norm_t(got) == _norm_t(want)
        ctx.ob("C18.a.nested", "streamer<%s> element" % erase(m.group(1)), ok, pattern=fn.pat, unit=tu.name, inst=fn.q,
               detail="" if ok else "the elements of %s are of type %s, but the collection printer prints them as %s: a "
               "nested array decays to a pointer (an address is printed instead of its elements), a nested object "
               "is converted" % (m.group(1), want, got))
    return n

WITNESS = r'''
#include <trompeloeil.hpp>
#include <map>
#include <memory>
#include <set>
#include <string>
#include <tuple>
#include <vector>
namespace w {
using namespace trompeloeil;
struct Opaque { int a; };
struct Streamable {};
std::ostream& operator<<(std::ostream&, Streamable const&);
struct NullEq { bool operator==(std::nullptr_t) const; };
struct FromNull { FromNull(std::nullptr_t); };
struct NonConstRange { int* begin(); int* end(); };
static_assert(is_output_streamable<int>::value && is_output_streamable<std::string>::value &&
              is_output_streamable<char const*>::value && is_output_streamable<Streamable>::value, "streamable leaves");
static_assert(!is_output_streamable<Opaque>::value && !is_output_streamable<std::vector<int>>::value &&
              !is_output_streamable<std::pair<int,int>>::value && !is_output_streamable<std::tuple<int>>::value &&
              !is_output_streamable<int[3]>::value, "not directly streamable");
static_assert(is_collection<std::vector<int>>::value && is_collection<std::map<int,int>>::value &&
              is_collection<std::set<int>>::value && is_collection<const int[3]>::value &&
              is_collection<std::vector<std::vector<int>>>::value, "collections");
static_assert(!is_collection<Opaque>::value && !is_collection<int>::value && !is_collection<std::pair<int,int>>::value &&
              !is_collection<const NonConstRange>::value, "non-collections");
static_assert(is_null_comparable<int*>::value && is_null_comparable<char const*>::value &&
              is_null_comparable<std::unique_ptr<int>>::value && is_null_comparable<std::shared_ptr<int>>::value &&
              is_null_comparable<NullEq>::value, "null-comparable");
static_assert(!is_null_comparable<int>::value && !is_null_comparable<std::string>::value &&
              !is_null_comparable<Opaque>::value && !is_null_comparable<FromNull>::value, "not null-comparable");
// which streamer is selected
template <typename T> struct tag {};
template <typename T> constexpr int kind(tag<streamer<T, true, true>>) { return 1; }
template <typename T> constexpr int kind(tag<streamer<T, true, false>>) { return 1; }
template <typename T> constexpr int kind(tag<streamer<T, false, true>>) { return 2; }
template <typename T> constexpr int kind(tag<streamer<T, false, false>>) { return 3; }
static_assert(kind(tag<streamer<int>>{}) == 1 && kind(tag<streamer<std::string>>{}) == 1, "operator<< wins");
static_assert(kind(tag<streamer<std::vector<Opaque>>>{}) == 2 && kind(tag<streamer<std::map<int, std::string>>>{}) == 2, "element-wise");
static_assert(kind(tag<streamer<Opaque>>{}) == 3 && kind(tag<streamer<std::pair<int, int>>>{}) == 3 &&
              kind(tag<streamer<std::tuple<int>>>{}) == 3, "pair / tuple specialisations and hex dump share the <false,false> slot");
}
int main() {}
'''


def c18e(ctx):
    path = os.path.join(facts.gen_dir(), "c18_types.cpp")
    os.makedirs(os.path.dirname(path), exist_ok=True)
    with open(path, "w") as fh:
        fh.write(WITNESS)
    cfgs = [("clang++", "c++17")] if ctx.tier == "quick" else [(c, s) for c in ("clang++", "g++") for s in ("c++14", "c++17", "c++20")]
    for (c, s), (rc, out) in zip(cfgs, cc.run_many([(cc.syntax_cmd(c, s, path), None) for c, s in cfgs])):
        ctx.ob("C18.e", "printer dispatch trait witnesses", rc == 0, pattern="verif:rules/C18.py", unit="%s@%s" % (c, s),
               detail="" if rc == 0 else "dispatch witness failed: " + out[-700:])
    ctx.extra["type_witness_static_asserts"] = WITNESS.count("static_assert")


def run(ctx):
    ctx.explanation = (
        "C18.a in every instantiation of print() the printer dispatch is on the non-null edge of is_null(value) and "
        "'nullptr' on the null edge (edge dominance), and inside every tuple / pair / collection streamer the only "
        "direct insertions are separators - elements go through print(), so the guard applies at every nesting "
        "depth, and what a collection printer hands to print() has the collection's element type (no array decay, no "
        "conversion), so nested collections recurse into the collection printer; C18.b stream_sentry saves width/flags/fill by exchange with 0 / dec|left / ' ' and restores each "
        "from what it saved; C18.c every direct insertion of a value (streamable leaf, hex dump) is dominated by a "
        "sentry local that lives to the end of the function; C18.d an opaque value is dumped as sizeof(T) bytes from "
        "its address; C18.e compile-time witnesses for the dispatch traits over the type family.")
    ctx.assumptions = ["the standard library renders leaves under the installed flags as documented"]
    ctx.not_decided = ["digits of the hex dump (the standard library renders them)"]
    units = []
    n = 0
    n_nested = 0
    n_const = 0
    for tu in ctx.units(lambda n: n.startswith("print") or n.startswith("repo_ct")):
        n += c18a(ctx, tu)
        n_nested += c18a_nested(ctx, tu)
        n_const += c18a_constfree(ctx, tu)
        c18b(ctx, tu)
        n += c18c(ctx, tu)
        c18d(ctx, tu)
        units.append({"unit": tu.name, "functions": len(tu.fns)})
    ctx.floor("C18 print/streamer instantiations", n, 30)
    ctx.floor("C18.a.nested collection element types", n_nested, 10)
    ctx.floor("C18.a.const print / printer / streamer instantiations examined", n_const, 60)
    c18e(ctx)
    ctx.extra["units"] = units
