"""C03 - call-count bounds: at most max accepted; satisfied/saturated track min/max."""
import os
import re

from engine import facts, cc, cfg, lib
from engine.facts import erase, short_loc, CACHE
from engine.lib import A, qe
from engine.table import Interp, Unknown, product
from rules.common import Oracle, ret_value, MAXSZ
from rules import protocol

F_MIN = "trompeloeil::sequence_handler_base::min_calls"
F_MAX = "trompeloeil::sequence_handler_base::max_calls"
F_CNT = "trompeloeil::sequence_handler_base::call_count"
HB = "trompeloeil::sequence_handler_base"


def _leaves(tu, cq, seen=()):
    """integral leaf fields of class cq (template-erased), looking into aggregate members: [(leaf name, path)]"""
    out = []
    for c in tu.cls_by_qe.get(cq, [])[:1]:
        for f in c.get("fields", ()):
            t = f["t"].replace("const ", "").strip()
            if t in ("unsigned long", "unsigned int", "unsigned long long", "int", "long", "size_t"):
                out.append(erase(f["q"]))
            else:
                tq = erase(t)
                if tq in tu.cls_by_qe and tq not in seen:
                    out.extend(_leaves(tu, tq, seen + (cq,)))
    return out


def _read_leaf(fn):
    """the leaf field a trivial accessor returns"""
    rets = [e.get("x") for b, e in fn.events() if e["e"] == "return"]
    if len(rets) != 1:
        return None
    t = lib.strip_casts(rets[0])
    return erase(t[1]) if isinstance(t, list) and t[:1] == ["member"] else None


def roles(tu):
    """(min, max, count) leaf fields of the handler, whatever they are called or however they are grouped: the
    lower bound is what get_min_calls() returns, the count what get_calls() returns, the upper bound the one
    integral field that is left.  -> dict F_MIN/F_MAX/F_CNT -> leaf name"""
    cache = tu.__dict__.setdefault("_c03_roles", None)
    if cache is not None:
        return cache
    leaves = _leaves(tu, HB)
    lo = [_read_leaf(f) for f in tu.find(HB + "::get_min_calls")]
    cn = [_read_leaf(f) for f in tu.find(HB + "::get_calls")]
    if len(leaves) != 3 or not lo or not cn or lo[0] not in leaves or cn[0] not in leaves or lo[0] == cn[0]:
        raise Unknown("the handler's (min, max, count) fields are not identified: integral fields %s, get_min_calls -> %s, "
                      "get_calls -> %s" % (leaves, lo[:1], cn[:1]))
    hi = [x for x in leaves if x not in (lo[0], cn[0])][0]
    r = {F_MIN: lo[0], F_MAX: hi, F_CNT: cn[0]}
    tu.__dict__["_c03_roles"] = r
    return r


def members(tu, lo, hi, c):
    r = roles(tu)
    out = {r[F_MIN]: lo, r[F_MAX]: hi, r[F_CNT]: c}
    # an aggregate member that groups some of them reads as the tuple of its leaves (declaration order)
    for cl in tu.cls_by_qe.get(HB, [])[:1]:
        for fld in cl.get("fields", ()):
            tq = erase(fld["t"].replace("const ", "").strip())
            if tq in tu.cls_by_qe:
                sub = _leaves(tu, tq)
                if sub and all(x in out for x in sub):
                    out[erase(fld["q"])] = tuple(out[x] for x in sub)
    return out


def role_stores(tu, effects):
    """stores of an interpreted region, by role; a store of a whole aggregate is spread over its fields"""
    r = roles(tu)
    inv = {v: k for k, v in r.items()}
    out = {}
    for k, lv, v in effects:
        if k != "store" or lv[0] != "member":
            continue
        f = erase(lv[1])
        if f in inv:
            out[inv[f]] = v
            continue
        # aggregate member: spread by declaration order
        hit = False
        for c in tu.cls_by_qe.get(HB, [])[:1]:
            for fld in c.get("fields", ()):
                if erase(fld["q"]) == f:
                    sub = _leaves(tu, erase(fld["t"].replace("const ", "").strip()))
                    vals = v if isinstance(v, tuple) else (v,)
                    if sub and len(sub) == len(vals):
                        for leaf, x in zip(sub, vals):
                            out[inv.get(leaf, leaf)] = x
                        hit = True
        if not hit:
            out[f] = v
    return out


def agg_assign(t, it):
    """defaulted assignment of an aggregate: the left-hand side receives the right-hand side's value"""
    from rules.common import _args
    a = _args(t)
    v = it.ev(a[1])
    it.store(it.lval(a[0]), v)
    return v


def _ctor_stores(tu, ctor, vals, lo, hi, c, depth=0):
    """stores of a handler constructor called with `vals`; base-class constructors are followed"""
    o = Oracle(params=vals, members=members(tu, lo, hi, c), calls=assign_calls(tu), any_call=True, any_member=True,
               any_param=True).descend_into(tu)
    it = Interp(ctor, o)
    eff = []
    it.run()
    return eff + list(it.effects)


def c03b_carry(ctx, tu):
    """IN_SEQUENCE replaces the expectation's handler by one that knows its sequences: the new handler must carry the
    limits the old one has at that moment (whatever set them: the defaults, TIMES, RT_TIMES, ALLOW_CALL).  The
    creation site is interpreted with an old handler of (min 5, max 7) and the constructor it calls - base
    constructors and helpers followed - must store exactly these."""
    n = 0
    SS = "trompeloeil::call_matcher::set_sequence"
    H = "trompeloeil::sequence_handler"
    # the creation site: set_sequence - or whichever member of the expectation / its modifier the helper was folded
    # into (the destruction requirement's own handler always has the default limits and is not of interest here)
    sites = [f for f in tu.find(SS) if f.has_body]
    if not sites:
        for f in tu.fns.values():
            if f.has_body and f.is_lib and (f.qe.startswith("trompeloeil::call_matcher::") or f.qe.startswith("trompeloeil::call_modifier::")) \
                    and any(e["e"] in ("call", "new") and re.search(r"(make_unique<|^)trompeloeil::sequence_handler<[1-9]", (e.get("q") or e.get("type") or ""))
                            for b, e in f.events()):
                sites.append(f)
    for fn in sites:
        mk = [e for b, e in fn.events() if e["e"] in ("call", "new", "ctor") and
              re.search(r"(make_unique<|^)trompeloeil::sequence_handler<(\d+)>", (e.get("q") or e.get("type") or ""))]
        mk = [e for e in mk if not (e["e"] == "ctor" and e.get("q", "").startswith("std::"))]
        if not mk:
            ctx.ob("C03.b.carry", SS, None, pattern=fn.pat, unit=tu.name, inst=fn.q,
                   detail="the creation of the new sequence handler is not recognised")
            continue
        e = mk[0]
        N = re.search(r"trompeloeil::sequence_handler<(\d+)>", e.get("q") or e.get("type") or "").group(1)
        n += 1
        try:
            o = Oracle(members=members(tu, 5, 7, 0), any_param=True, any_member=True, any_call=True).descend_into(tu)
            it = Interp(fn, o)
            vals = {}
            for i, a in enumerate(e.get("args") or []):
                try:
                    vals[i] = it.ev(a)
                except Unknown as u:
                    vals[i] = ("opaque", str(u))
            ctors = [c for c in tu.fns.values() if c.qe == H + "::sequence_handler" and c.has_body and
                     not c.rec.get("special") and c.rec.get("clsq", "").endswith("<%s>" % N) and
                     len(c.rec["params"]) == len(e.get("args") or [])]
            if not ctors:
                ctx.ob("C03.b.carry", SS, None, pattern=fn.pat, unit=tu.name, inst=fn.q,
                       detail="the constructor the new sequence handler is created with was not found")
                continue
            why = None
            # several shapes of limits: a constructor that special-cases "the default" lower bound, or folds it into
            # a flag, is wrong for some of them
            for lo_v, hi_v in ((5, 7), (1, 3), (2, 3), (0, MAXSZ), (1, MAXSZ), (0, 2)):
                o2 = Oracle(members=members(tu, lo_v, hi_v, 0), any_param=True, any_member=True, any_call=True).descend_into(tu)
                it2 = Interp(fn, o2)
                vals2 = {}
                for i, a in enumerate(e.get("args") or []):
                    try:
                        vals2[i] = it2.ev(a)
                    except Unknown as u:
                        vals2[i] = ("opaque", str(u))
                for c in ctors:
                    st = role_stores(tu, _ctor_stores(tu, c, vals2, lo_v, hi_v, 0))
                    if (st.get(F_MIN), st.get(F_MAX)) != (lo_v, hi_v) and why is None:
                        why = "with an old handler of (min %s, max %s) the new one gets (min %s, max %s)" % (
                            lo_v, "unbounded" if hi_v == MAXSZ else hi_v, _show(st.get(F_MIN)), _show(st.get(F_MAX)))
            ctx.ob("C03.b.carry", SS, why is None, pattern=fn.pat, unit=tu.name, inst=fn.q,
                   detail="" if why is None else "IN_SEQUENCE must keep the call-count limits set so far: " + why)
        except Unknown as u:
            ctx.ob("C03.b.carry", SS, None, pattern=fn.pat, unit=tu.name, inst=fn.q, detail="cannot interpret: %s" % u)
    return n


def _show(v):
    if isinstance(v, tuple):
        return "something else (%s)" % (v[1] if len(v) > 1 else v[0],)
    return "nothing" if v is None else str(v)


def c03a(ctx, tu):
    spec = {
        A["is_satisfied"]: (lambda c, lo, hi: c >= lo, lambda c, lo, hi: True, "count >= min"),
        # count <= max is an invariant (exactly one +1 per accepted call, leave the active list on
        # saturation): rows with count > max are don't-care, so `==` and `>=` are both accepted
        A["is_saturated"]: (lambda c, lo, hi: c == hi, lambda c, lo, hi: c <= hi, "count == max"),
        A["is_forbidden"]: (lambda c, lo, hi: hi == 0, lambda c, lo, hi: True, "max == 0"),
    }
    for name, (want, care, text) in spec.items():
        # the predicate as declared in the handler base - and every override of it in a derived handler (a virtual
        # predicate answers through its final overrider)
        fns = list(tu.need(name))
        short = name.rsplit("::", 1)[-1]
        for f2 in tu.fns.values():
            if f2.has_body and f2.is_lib and f2.kind == "method" and f2.qe != name and f2.qe.endswith("::" + short) and \
                    f2.qe.startswith("trompeloeil::sequence_handler") and not f2.rec.get("params"):
                fns.append(f2)
        for fn in fns:
            try:
                bad = None
                rows = 0
                for v in product({"c": [0, 1, 2, 3], "lo": [0, 1, 2, 3], "hi": [0, 1, 2, 3, MAXSZ]}):
                    if not care(v["c"], v["lo"], v["hi"]):
                        continue
                    rows += 1
                    o = Oracle(members=members(tu, v["lo"], v["hi"], v["c"])).descend_into(tu)
                    r = bool(ret_value(fn, o))
                    if r != bool(want(v["c"], v["lo"], v["hi"])):
                        bad = "count=%s min=%s max=%s gives %s" % (v["c"], v["lo"], "unbounded" if v["hi"] == MAXSZ else v["hi"], r)
                ctx.ob("C03.a", name if fn.qe == name else fn.qe, bad is None, pattern=fn.pat, unit=tu.name, inst=fn.q,
                       detail="" if bad is None else "%s must be (%s): %s" % (name.rsplit("::", 1)[-1], text, bad))
                ctx.sample({"rule": "C03.a", "predicate": name, "spec": text, "rows_evaluated": rows})
            except Unknown as u:
                ctx.ob("C03.a", name, None, pattern=fn.pat, unit=tu.name, detail="cannot interpret: %s" % u)


def assign_calls(tu):
    """implicit / defaulted assignment operators of the aggregates the handler's fields are grouped in"""
    out = {}
    for c in tu.cls_by_qe.get(HB, [])[:1]:
        for fld in c.get("fields", ()):
            tq = erase(fld["t"].replace("const ", "").strip())
            if tq in tu.cls_by_qe:
                out[tq + "::operator="] = agg_assign
                out["ctor " + tq] = agg_ctor
    return out


def agg_ctor(t, it):
    """construction of such an aggregate: a copy is the source's value, {a, b} the tuple of its members"""
    a = t[3]
    if len(a) == 1:
        return it.ev(a[0])
    return tuple(it.ev(x) for x in a)


def stores(effects):
    out = {}
    for k, lv, v in effects:
        if k == "store" and lv[0] == "member":
            out[erase(lv[1])] = v
    return out


def c03b(ctx, tu):
    # set_limits(L, H): min <- L, max <- H
    for fn in tu.need(A["set_limits"]):
        try:
            o = Oracle(params={0: 5, 1: 7}, members=members(tu, 1, 1, 0), calls=assign_calls(tu))
            it = Interp(fn, o)
            it.run()
            st = role_stores(tu, it.effects)
            ok = st.get(F_MIN) == 5 and st.get(F_MAX) == 7 and F_CNT not in st
            ctx.ob("C03.b", A["set_limits"], ok, pattern=fn.pat, unit=tu.name,
                   detail="" if ok else "set_limits(L,H) must store min<-L, max<-H and nothing else; it stores %s" % st)
        except Unknown as u:
            ctx.ob("C03.b", A["set_limits"], None, pattern=fn.pat, unit=tu.name, detail="cannot interpret: %s" % u)
    # increment_call: count <- count + 1
    for fn in tu.need(A["increment_call"]):
        try:
            bad = None
            for c in (0, 1, 5):
                o = Oracle(members=members(tu, 1, 9, c), calls=assign_calls(tu))
                it = Interp(fn, o)
                it.run()
                st = role_stores(tu, it.effects)
                if st != {F_CNT: c + 1}:
                    bad = "with count=%d it stores %s" % (c, st)
            ctx.ob("C03.d", A["increment_call"], bad is None, pattern=fn.pat, unit=tu.name,
                   detail="" if bad is None else "counting a call must add exactly one to the handled count: " + bad)
        except Unknown as u:
            ctx.ob("C03.d", A["increment_call"], None, pattern=fn.pat, unit=tu.name, detail="cannot interpret: %s" % u)
    # default limits (1,1,0)
    for fn in tu.need("trompeloeil::sequence_handler_base::sequence_handler_base"):
        if fn.rec.get("special") in ("copy_ctor", "move_ctor"):
            continue
        try:
            it = Interp(fn, Oracle(calls=assign_calls(tu)))
            it.run()
            st = role_stores(tu, it.effects)
            ok = st == {F_MIN: 1, F_MAX: 1, F_CNT: 0}
            ctx.ob("C03.b", "default limits", ok, pattern=fn.pat, unit=tu.name,
                   detail="" if ok else "an expectation without TIMES must have limits (min 1, max 1, count 0); found %s" % st)
        except Unknown as u:
            ctx.ob("C03.b", "default limits", None, pattern=fn.pat, unit=tu.name, detail="cannot interpret: %s" % u)
    # rt_multiplicity constructors
    for fn in tu.find("trompeloeil::rt_multiplicity::rt_multiplicity"):
        if fn.rec.get("special") in ("copy_ctor", "move_ctor"):
            continue
        try:
            ps = fn.rec["params"]
            n_req = len([p for p in ps if "default" not in p])
            # every way the constructor can be called: with k written arguments, the rest defaulted
            for k in range(max(n_req, 1), len(ps) + 1):
                given = {0: 3, 1: 8}
                it0 = Interp(fn, Oracle())
                vals = {}
                for i, p in enumerate(ps):
                    vals[i] = given[i] if i < k else it0.ev(p["default"])
                o = Oracle(params=vals).descend_into(tu)     # a delegating constructor is followed
                it = Interp(fn, o)
                it.run()
                st = stores(it.effects)
                want = {"trompeloeil::rt_multiplicity::low": 3, "trompeloeil::rt_multiplicity::high": 3 if k == 1 else 8}
                ctx.ob("C03.b", "rt_multiplicity/%d" % k, st == want, pattern=fn.pat, unit=tu.name,
                       detail="" if st == want else "RT_TIMES(%s) must give bounds %s; found %s" % (
                           "n" if k == 1 else "low, high", want, st))
        except Unknown as u:
            ctx.ob("C03.b", "rt_multiplicity", None, pattern=fn.pat, unit=tu.name, detail="cannot interpret: %s" % u)
    # times::action passes the (L,H) of its multiplicity<L,H> argument
    n_times = 0
    for fn in tu.find("trompeloeil::times::action"):
        n_times += 1
        m = re.search(r"multiplicity<(\d+)(?:UL|ULL|U)?(?:, (\d+)(?:UL|ULL|U)?)?>", fn.rec["params"][1]["t"])
        if not m:
            ctx.ob("C03.b", "trompeloeil::times::action", None, pattern=fn.pat, unit=tu.name, inst=fn.q,
                   detail="the multiplicity<L,H> argument type was not recognised")
            continue
        lo = int(m.group(1))
        hi = int(m.group(2)) if m.group(2) else lo
        # what the clause stores into the handler (through set_limits, or whatever the setter is split into)
        try:
            o = Oracle(calls=assign_calls(tu), any_call=True, any_member=True, any_param=True).descend_into(tu, depth=4)
            it = Interp(fn, o)
            it.run(max_steps=2000)
            st = role_stores(tu, it.effects)
            ok = st.get(F_MIN) == lo and st.get(F_MAX) == hi and F_CNT not in st
            ctx.ob("C03.b", "trompeloeil::times::action", ok, pattern=fn.pat, unit=tu.name, inst=fn.q,
                   detail="" if ok else "TIMES must store the bounds of its multiplicity<L,H> argument (min %s, max %s) in the "
                   "expectation's handler; it stores %s" % (lo, "unbounded" if hi == MAXSZ else hi,
                                                            {k.rsplit("::", 1)[-1]: _show(v) for k, v in st.items()}))
        except Unknown as u:
            ctx.ob("C03.b", "trompeloeil::times::action", None, pattern=fn.pat, unit=tu.name, inst=fn.q,
                   detail="cannot interpret: %s" % u)
    return n_times


def c03e(ctx, tu):
    """RT_TIMES: std::logic_error iff high < low, thrown before any effect"""
    n = 0
    for fn in tu.find("trompeloeil::runtime_times::action"):
        n += 1
        try:
            bad = None
            for lo in (0, 1, 2):
                for hi in (0, 1, 2):
                    seen = []
                    def setl(t, it, seen=seen):
                        seen.append(("set_limits", it.ev(t[4][0]), it.ev(t[4][1])))
                        return None
                    o = Oracle(calls={A["set_limits"]: setl, A["get_lock"]: ("lock",),
                                      "std::unique_ptr::operator->": ("ptr", ("obj", "x")),
                                      "std::move": ("obj", "m"), "ctor std::logic_error": ("obj", "exc"),
                                      "ctor trompeloeil::call_modifier": ("obj", "ret"),
                                      "ctor std::unique_lock": ("lock",), "ctor std::unique_ptr": ("obj", "up")},
                               members={"trompeloeil::rt_multiplicity::low": lo, "trompeloeil::rt_multiplicity::high": hi,
                                        "trompeloeil::call_modifier::matcher": ("obj", "matcher"),
                                        "trompeloeil::call_matcher::sequences": ("obj", "seq")},
                               params={0: ("obj", "m"), 1: ("obj", "bounds")})
                    it = Interp(fn, o)
                    res = it.run()
                    if hi < lo:
                        ok = res[0] == "throw" and "logic_error" in str(res[1]) and not seen
                        want = "throw std::logic_error before touching the expectation"
                    else:
                        ok = res[0] == "return" and seen == [("set_limits", lo, hi)]
                        want = "set_limits(%d, %d) and return" % (lo, hi)
                    if not ok and bad is None:
                        bad = "RT_TIMES(%d, %d): expected %s; code does %s %s" % (lo, hi, want, res[0], seen)
            ctx.ob("C03.e", "trompeloeil::runtime_times::action", bad is None, pattern=fn.pat, unit=tu.name, inst=fn.q,
                   detail="" if bad is None else bad)
        except Unknown as u:
            ctx.ob("C03.e", "trompeloeil::runtime_times::action", None, pattern=fn.pat, unit=tu.name,
                   detail="cannot interpret: %s" % u)
    return n


def c03g(ctx, tu):
    """the public queries return the handler's predicates"""
    for name, pred in (("trompeloeil::call_matcher::is_satisfied", A["is_satisfied"]),
                       ("trompeloeil::call_matcher::is_saturated", A["is_saturated"])):
        for fn in tu.need(name, 3):
            rets = [e.get("x") for b, e in fn.events() if e["e"] == "return"]
            ok = len(rets) == 1 and lib.tree_name(rets[0]) == pred and "::sequences" in str(rets[0])
            ctx.ob("C03.g", name, ok, pattern=fn.pat, unit=tu.name, inst=fn.q,
                   detail="" if ok else "%s must return its own handler's %s()" % (name, pred.rsplit("::", 1)[-1]))
            # ... read while a lock OBJECT is alive (a discarded `get_lock();` releases the lock at once): "queried
            # after every step" includes steps other threads make
            locks = [e for b, e in fn.flow_events() if e["e"] == "decl" and "unique_lock<" in (e.get("type") or "") and
                     A["get_lock"] in str(e.get("init"))]
            bare = [e for b, e in fn.events() if e["e"] == "call" and qe(e) == A["get_lock"]]
            if bare or locks:
                okl = bool(locks)
                ctx.ob("C03.g.lock", name, okl, pattern=fn.pat, unit=tu.name, inst=fn.q,
                       detail="" if okl else "the lock taken by %s is a discarded temporary: the predicate is read with no lock held" % name)


WITNESS = r'''
#include <trompeloeil.hpp>
#include <type_traits>
#include <cstddef>
namespace w {
using trompeloeil::multiplicity;
constexpr std::size_t inf = ~static_cast<std::size_t>(0);
template <std::size_t L, std::size_t H> constexpr std::size_t lo(multiplicity<L, H>) { return L; }
template <std::size_t L, std::size_t H> constexpr std::size_t hi(multiplicity<L, H>) { return H; }
static_assert(lo(multiplicity<3>{}) == 3 && hi(multiplicity<3>{}) == 3, "TIMES(n) is exactly n");
static_assert(lo(multiplicity<2, 5>{}) == 2 && hi(multiplicity<2, 5>{}) == 5, "TIMES(l, h)");
static_assert(lo(multiplicity<AT_LEAST(4)>{}) == 4 && hi(multiplicity<AT_LEAST(4)>{}) == inf, "AT_LEAST(n) = n..unbounded");
static_assert(lo(multiplicity<AT_MOST(4)>{}) == 0 && hi(multiplicity<AT_MOST(4)>{}) == 4, "AT_MOST(n) = 0..n");
static_assert(lo(multiplicity<TROMPELOEIL_AT_LEAST(1)>{}) == 1 && hi(multiplicity<TROMPELOEIL_AT_MOST(7)>{}) == 7, "long names");
static_assert(std::is_same<decltype(trompeloeil::rt_multiplicity(AT_LEAST(2))), trompeloeil::rt_multiplicity>::value,
              "RT_TIMES(AT_LEAST(n)) uses the two-bound constructor");
static_assert(std::is_same<decltype(trompeloeil::rt_multiplicity(AT_MOST(2))), trompeloeil::rt_multiplicity>::value,
              "RT_TIMES(AT_MOST(n)) uses the two-bound constructor");
}
int main() {}
'''

# same-line macro equivalences: left and right must expand to the same token sequence
EQUIV = [
    ("ALLOW_CALL(o, f(1))", "REQUIRE_CALL(o, f(1)).TIMES(0, ~static_cast<size_t>(0))"),
    ("NAMED_ALLOW_CALL(o, f(1))", "NAMED_REQUIRE_CALL(o, f(1)).TIMES(0, ~static_cast<size_t>(0))"),
    ("FORBID_CALL(o, f(1))", "REQUIRE_CALL(o, f(1)).TIMES(0)"),
    ("NAMED_FORBID_CALL(o, f(1))", "NAMED_REQUIRE_CALL(o, f(1)).TIMES(0)"),
    ("TROMPELOEIL_ALLOW_CALL(o, f(1))", "TROMPELOEIL_REQUIRE_CALL(o, f(1)).TROMPELOEIL_TIMES(0, ~static_cast<size_t>(0))"),
    ("TROMPELOEIL_FORBID_CALL(o, f(1))", "TROMPELOEIL_REQUIRE_CALL(o, f(1)).TROMPELOEIL_TIMES(0)"),
    ("ALLOW_CALL_V(o, f(1), .WITH(_1 == 1))", "REQUIRE_CALL_V(o, f(1), .TIMES(0, ~static_cast<size_t>(0)) .WITH(_1 == 1))"),
    ("FORBID_CALL_V(o, f(1), .WITH(_1 == 1))", "REQUIRE_CALL_V(o, f(1), .TIMES(0) .WITH(_1 == 1))"),
    ("NAMED_ALLOW_CALL_V(o, f(1))", "NAMED_REQUIRE_CALL_V(o, f(1), .TIMES(0, ~static_cast<size_t>(0)))"),
    ("NAMED_FORBID_CALL_V(o, f(1))", "NAMED_REQUIRE_CALL_V(o, f(1), .TIMES(0))"),
]


def tokens(s):
    # the stringified call text differs by construction ("ALLOW_CALL..." vs "REQUIRE_CALL..."): drop string literals
    s = re.sub(r'"(?:[^"\\]|\\.)*"', '""', s)
    # names built from __COUNTER__ / __LINE__ differ between two expansions by construction
    s = re.sub(r"\b(trompeloeil_[A-Za-z_]*?)_?\d+\b", r"\1_N", s)
    return re.findall(r"[A-Za-z_][A-Za-z_0-9]*|\d+[A-Za-z]*|::|->|<<|>>|[^\sA-Za-z_0-9]", s)


def ast_equal(i, l, r):
    """True / False: the two macro forms, each in a function of its own (same source line, so that __LINE__ agrees),
    have the same type-resolved syntax tree up to generated names, lambda locations and string contents.  None when
    the probe cannot be parsed."""
    import json
    import subprocess
    gen = facts.gen_dir()
    os.makedirs(gen, exist_ok=True)
    src = os.path.join(gen, "c03_macro_%d.cpp" % i)
    out = os.path.join(gen, "c03_macro_%d.jsonl" % i)

    def stmt(x):
        return ("auto e = %s;" % x) if re.match(r"(TROMPELOEIL_)?NAMED_", x) else (x + ";")
    with open(src, "w") as fh:
        fh.write("#include <trompeloeil.hpp>\nstruct ProbeMock { MAKE_MOCK1(f, void(int)); };\n"
                 "void probeL(ProbeMock& o) { %s } void probeR(ProbeMock& o) { %s }\nint main() {}\n" % (stmt(l), stmt(r)))
    facts.ensure_plugin()
    cmd = ["clang++", "-std=c++17", "-I" + cc.INCLUDE, "-fsyntax-only", "-w", "-fplugin=" + facts.PLUGIN, "-Xclang", "-plugin",
           "-Xclang", "tvfacts", "-Xclang", "-plugin-arg-tvfacts", "-Xclang", "out=" + out, src]
    p = subprocess.run(cmd, capture_output=True, text=True)
    if p.returncode != 0 or not os.path.exists(out):
        return None
    trees = {}
    for line in open(out):
        try:
            o = json.loads(line)
        except ValueError:
            continue
        side = "probeL" if "probeL" in (o.get("q") or "") else ("probeR" if "probeR" in (o.get("q") or "") else None)
        if o.get("k") == "fn" and side:
            def strip(x):
                if isinstance(x, dict):
                    return {k: strip(v) for k, v in x.items() if k not in ("loc", "id", "callee", "var", "callop", "cls")}
                if isinstance(x, list):
                    if x[:1] == ["str"]:
                        return ["str"]
                    if x[:1] == ["lambda"]:
                        return ["lambda"]
                    if x[:1] in (["var"], ["fnref"], ["ctor"], ["call"], ["mcall"], ["opcall"], ["method"]) and len(x) > 1 \
                            and isinstance(x[1], int):
                        return [x[0]] + [strip(v) for v in x[2:]]
                    return [strip(v) for v in x]
                if isinstance(x, str):
                    x = re.sub(r"\(lambda at [^)]*\)", "(lambda)", x)
                    return re.sub(r"_\d+\b", "_N", x)
                return x
            body = json.dumps([strip(o.get("q")), strip(o.get("blocks"))], sort_keys=True)
            trees.setdefault(side, []).append(body.replace("probeL", "probe").replace("probeR", "probe"))
    if len(trees) != 2:
        return None
    return sorted(trees["probeL"]) == sorted(trees["probeR"])


def macro_tables(ctx, rule_ids=("C03.c", "C07.a")):
    os.makedirs(facts.gen_dir(), exist_ok=True)
    lines = ["#include <trompeloeil.hpp>"]
    for i, (l, r) in enumerate(EQUIV):
        lines.append("@@L%d %s @@R%d %s @@E%d" % (i, l, i, r, i))
    src = "\n".join(lines) + "\n"
    jobs = [(["clang++", "-std=c++17", "-I" + cc.INCLUDE, "-E", "-P", "-w", "-x", "c++", "-"], src)]
    (rc, out), = cc.run_many(jobs)
    if rc != 0:
        ctx.broke("macro probe does not preprocess: " + out[-400:])
        return
    for i, (l, r) in enumerate(EQUIV):
        m = re.search(r"@@L%d(.*?)@@R%d(.*?)@@E%d" % (i, i, i), out, re.S)
        forbid = "FORBID" in l
        rule = "C07.a" if forbid else "C03.c"
        if rule not in rule_ids:
            continue
        if not m:
            ctx.ob(rule, l, None, detail="probe line not found in preprocessor output")
            continue
        a, b = tokens(m.group(1)), tokens(m.group(2))
        ok = a == b
        how = "clang++ -E"
        if not ok:
            # the spellings differ (a type alias, a helper macro with other tokens): compare what the two forms MEAN -
            # the type-resolved syntax trees of two functions that contain one form each
            ok = ast_equal(i, l, r)
            how = "type-resolved syntax tree"
        ctx.ob(rule, "macro " + l.split("(")[0], ok, pattern="include/trompeloeil/mock.hpp", unit=how,
               detail="" if ok else ("%s does not expand like %s" % (l, r) if ok is False else
                                     "%s and %s expand to different tokens and could not be compared as syntax trees" % (l, r)),
               witness=None if ok else {"left": " ".join(a)[-400:], "right": " ".join(b)[-400:]})


def c03c(ctx):
    path = os.path.join(facts.gen_dir(), "c03_types.cpp")
    os.makedirs(os.path.dirname(path), exist_ok=True)
    with open(path, "w") as fh:
        fh.write(WITNESS)
    cfgs = [("clang++", "c++17")] if ctx.tier == "quick" else [(c, s) for c in ("clang++", "g++")
                                                                for s in ("c++14", "c++17", "c++20")]
    res = cc.run_many([(cc.syntax_cmd(c, s, path), None) for c, s in cfgs])
    for (c, s), (rc, out) in zip(cfgs, res):
        ctx.ob("C03.c", "multiplicity witnesses (TIMES, AT_LEAST, AT_MOST)", rc == 0, pattern="verif:rules/C03.py",
               unit="%s@%s" % (c, s), detail="" if rc == 0 else "bounds witness failed: " + out[-700:])
    macro_tables(ctx, ("C03.c",))


def run(ctx):
    ctx.explanation = (
        "C03.a truth tables of is_satisfied / is_saturated / is_forbidden over (count, min, max) by interpreting "
        "their return expressions on every valuation of a finite order abstraction; C03.b limit plumbing: "
        "set_limits / increment_call / default limits / rt_multiplicity constructors interpreted for their stores, "
        "TIMES passes its multiplicity<L,H>; C03.c compile-time witnesses for TIMES/AT_LEAST/AT_MOST and "
        "token-equality of the ALLOW_CALL macro family with REQUIRE_CALL + TIMES(0, unbounded); C03.d protocol "
        "automaton: exactly one +1 per accepted call, and on saturation retire / unlink / append to the saturated "
        "list in that order; C03.e RT_TIMES throws std::logic_error exactly when high < low and before any effect; "
        "C03.g the public queries forward to the handler's predicates.")
    ctx.assumptions = ["count <= max is maintained by C03.d (rows with count > max are don't-care for is_saturated)"]
    ctx.not_decided = []
    units = []
    nt = nr = ncarry = 0
    for tu in ctx.units(lambda n: n.startswith("core") or n.startswith("repo_ct") or n.startswith("coro")):
        if not tu.find(A["set_limits"]):
            continue
        c03a(ctx, tu)
        nt += c03b(ctx, tu)
        ncarry += c03b_carry(ctx, tu)
        nr += c03e(ctx, tu)
        c03g(ctx, tu)
        protocol.report(ctx, tu, lambda r: True)   # the whole step protocol is a premise of this property
        from rules import C15
        C15.c15c(ctx, tu)    # C03.f: a call beyond the upper bound is reported naming the saturated expectation
        from rules import C04
        C04.c04h(ctx, tu)    # ... also after the mock has been moved (the saturated list moves with it)
        units.append({"unit": tu.name, "functions": len(tu.fns)})
    ctx.floor("C03.b TIMES instantiations", nt, 4)
    ctx.floor("C03.b.carry IN_SEQUENCE handler replacements", ncarry, 2)
    ctx.floor("C03.e RT_TIMES instantiations", nr, 2)
    c03c(ctx)
    ctx.extra["units"] = units
