"""C09 - _1.._15 alias the caller's arguments; plain clauses copy locals, LR_ ones don't."""
import os
import re

from engine import facts, cc, lib
from engine.facts import erase, short_loc, CACHE
from engine.lib import A, qe
from witness import c09gen
from rules import C08

CLAUSE_MACROS = {
    # macro -> capture default (1 = by copy, 2 = by reference)
    "WITH": 1, "SIDE_EFFECT": 1, "RETURN": 1, "THROW": 1, "CO_RETURN": 1, "CO_THROW": 1, "CO_YIELD": 1,
    "LR_WITH": 2, "LR_SIDE_EFFECT": 2, "LR_RETURN": 2, "LR_THROW": 2, "LR_CO_RETURN": 2, "LR_CO_THROW": 2,
    "LR_CO_YIELD": 2,
}


def c09a(ctx):
    gen = facts.gen_dir()
    os.makedirs(gen, exist_ok=True)
    quick = ctx.tier == "quick"
    cfgs = [("clang++", "c++17")] if quick else [(c, s) for c in ("clang++", "g++") for s in ("c++14", "c++17", "c++20")]
    jobs, meta = [], []
    total = 0
    for n in range(16):
        src, na = c09gen.program([n])
        total += na
        path = os.path.join(gen, "c09_arity%d.cpp" % n)
        with open(path, "w") as fh:
            fh.write(src)
        for c, s in cfgs:
            jobs.append((cc.syntax_cmd(c, s, path), None))
            meta.append((n, c, s, na))
    neg = os.path.join(gen, "c09_neg.cpp")
    with open(neg, "w") as fh:
        fh.write(c09gen.negative_program())
    jobs.append((cc.syntax_cmd("clang++", "c++17", neg), None))
    res = cc.run_many(jobs)
    for (n, c, s, na), (rc, out) in zip(meta, res[:-1]):
        ok = rc == 0
        first = ""
        if not ok:
            m = re.search(r"error: .*", out)
            first = m.group(0)[:400] if m else out[-400:]
        ctx.ob("C09.a", "arity %d: _1.._15, member type, parameter tuple (4 macro families, 8 clause kinds)" % n, ok,
               pattern="verif:witness/c09gen.py", unit="%s@%s" % (c, s),
               detail="" if ok else "positional-alias witness for arity %d fails to compile with %s -std=%s: %s" % (n, c, s, first),
               witness=None if ok else {"output_tail": out[-1500:]})
    rc, out = res[-1]
    n_ctrl = len(re.findall(r"static_assert failed|static assertion failed", out))
    ctx.ob("C09.a.control", "negative controls (wrong index / by-value / beyond arity must not compile)",
           rc != 0 and n_ctrl >= 3, pattern="verif:witness/c09gen.py",
           detail="" if (rc != 0 and n_ctrl >= 3) else "the witness cannot tell a wrong wiring from a right one "
           "(%d of 3 controls rejected)" % n_ctrl)
    ctx.extra["static_asserts_per_configuration"] = total
    ctx.extra["witness_configurations"] = ["%s@%s" % c for c in cfgs]
    ctx.sample({"rule": "C09.a", "arity": 3, "example": "same<decltype(_2), %s>() inside WITH/SIDE_EFFECT/RETURN/THROW "
                "and their LR_ twins" % c09gen.alias_type(c09gen.ptype(2, 3))})


def c09b(ctx, tu):
    """the parameter tuple is constructed in place from the forwarded parameters, in order"""
    for fn in tu.need(A["dispatch"], 5):
        finds = [e for b, e in fn.events() if e["e"] == "call" and qe(e) == A["find"]]
        ok = len(finds) == 1
        why = "selection call not found"
        if ok:
            a1 = finds[0]["args"][1]
            pv = [e for b, e in fn.events() if e["e"] == "decl" and a1[:1] == ["var"] and e["var"] == a1[1]]
            ok = bool(pv)
            if ok:
                init = pv[0].get("init")
                args = init[3] if isinstance(init, list) and init[:1] == ["ctor"] else None
                np = len(fn.rec["params"]) - 3
                ok = args is not None and len(args) == np
                why = "the parameter tuple is not built from exactly the call's parameters"
                if ok:
                    for i, a in enumerate(args):
                        t = a
                        # an explicitly constructed reference_wrapper around the forwarded parameter binds a
                        # reference: no copy of the caller's object
                        while isinstance(t, list) and t[:1] == ["ctor"] and len(t) > 3 and len(t[3]) == 1 and \
                                erase(t[2]) == "std::reference_wrapper":
                            t = t[3][0]
                        if lib.tree_name(t) is None or not lib.tree_name(t).startswith("std::forward"):
                            ok = False
                            why = "parameter %d is not perfectly forwarded into the tuple (a copy would be made)" % (i + 1)
                            break
                        if t[3][0][:2] != ["param", i + 3]:
                            ok = False
                            why = "parameter %d of the call is bound to tuple position %d" % (t[3][0][1] - 2, i + 1)
                            break
        ctx.ob("C09.b", A["dispatch"], ok, pattern=fn.pat, unit=tu.name, inst=fn.q, detail="" if ok else why)
        # the same tuple object is what run_actions / return_value / trace receive
        cand = C08.candidate_var(fn)
        same = True
        for b, e in fn.events():
            if e["e"] == "call" and qe(e) in (A["run_actions_base"], "trompeloeil::call_matcher_base::return_value"):
                if not any(isinstance(x, list) and x[:2] == finds[0]["args"][1][:2] for x in e.get("args", [])):
                    same = False
        ctx.ob("C09.b.same", A["dispatch"], same, pattern=fn.pat, unit=tu.name, inst=fn.q,
               detail="" if same else "actions / return expression are given a different parameter tuple than the one matched")


def c09c(ctx, tu, seen):
    """capture default of every clause lambda by originating macro"""
    for f in tu.fns.values():
        if not f.rec.get("lambda"):
            continue
        chain = f.rec.get("macros") or []
        macro = None
        for m in chain:
            mm = m[len("TROMPELOEIL_"):] if m.startswith("TROMPELOEIL_") else m
            mm = mm.rstrip("_")
            if mm in CLAUSE_MACROS:
                macro = mm
        if macro is None:
            continue
        want = CLAUSE_MACROS[macro]
        got = f.rec.get("capdef")
        seen.add(macro)
        ctx.ob("C09.c", "clause macro " + macro, got == want, pattern=f.pat or short_loc(f.rec.get("loc")), unit=tu.name,
               inst=f.q, detail="" if got == want else "%s must capture the enclosing scope by %s; its lambda captures by %s"
               % (macro, "copy" if want == 1 else "reference", {0: "nothing", 1: "copy", 2: "reference"}.get(got, got)))


COPY_TRAP = r'''
#include <trompeloeil.hpp>
#include <utility>
namespace w {
template <typename T> struct dependent_false { static constexpr bool value = false; };
// copying this type is a compile-time error, but only where a copy is actually made (member of a class template: its
// body is instantiated on use).  Moving is fine and deliberately NOT noexcept (move_if_noexcept would copy).
template <typename Tag = void>
struct CopyTrap {
  CopyTrap() {}
  CopyTrap(CopyTrap&&) {}
  CopyTrap(const CopyTrap&) { static_assert(dependent_false<Tag>::value, "COPIED"); }
  CopyTrap& operator=(CopyTrap&&) { return *this; }
  CopyTrap& operator=(const CopyTrap&) { static_assert(dependent_false<Tag>::value, "COPIED"); return *this; }
};
using T = CopyTrap<>;
void sink(T&&);
bool look(T const&);
struct M {
  MAKE_MOCK1(by_rref, T(T&&));
  MAKE_MOCK1(by_value, T(T));
  MAKE_MOCK3(mid, T(int, T&&, int&));
  MAKE_CONST_MOCK1(cby_rref, T(T&&));
  MAKE_MOCK1(vsink, void(T&&));
  MAKE_MOCK1(by_cref, void(T const&));
};
void use(M& m) {
  REQUIRE_CALL(m, by_rref(trompeloeil::_)).WITH(look(_1)).RETURN(std::move(_1));
  REQUIRE_CALL(m, by_value(trompeloeil::_)).WITH(look(_1)).SIDE_EFFECT(look(_1)).RETURN(std::move(_1));
  REQUIRE_CALL(m, mid(trompeloeil::_, trompeloeil::_, trompeloeil::_)).LR_WITH(look(_2)).LR_SIDE_EFFECT(_3 = _1).LR_RETURN(std::move(_2));
  REQUIRE_CALL(m, cby_rref(trompeloeil::_)).RETURN(std::move(_1));
  REQUIRE_CALL(m, vsink(trompeloeil::_)).SIDE_EFFECT(sink(std::move(_1)));
  REQUIRE_CALL(m, by_cref(trompeloeil::_)).WITH(look(_1)).SIDE_EFFECT(look(_1));
#ifdef CONTROL
  REQUIRE_CALL(m, by_rref(trompeloeil::_)).RETURN(_1);
#endif
}
void call(M& m, int& i) {
  T a = m.by_rref(T{});
  T b = m.by_value(T{});
  T c = m.mid(1, T{}, i);
  m.vsink(std::move(a));
  m.by_cref(b);
  (void)c;
}
}
int main() {}
'''


CPP11_WITNESS = r'''
#include <trompeloeil.hpp>
#include <type_traits>
namespace w11 {
template <class A, class B> constexpr bool same() { static_assert(std::is_same<A, B>::value, "C09: _N must be a reference to the caller's N:th argument (C++11 API)"); return true; }
struct P1 { int v; }; struct P2 { int v; }; struct P3 { int v; };
struct MO { MO() = default; MO(MO&&) = default; MO(MO const&) = delete; int v; };
struct M {
  MAKE_MOCK4(f, int(P1, P2&, P3 const&, MO&&));
  MAKE_CONST_MOCK2(g, void(P1*, P2&&));
  MAKE_MOCK15(h, int(P1&, int, int, int, int, int, int, int, int, int, int, int, P2 const&, int, P3&));
};
void use(M& m) {
  using trompeloeil::_;
  REQUIRE_CALL_V(m, f(_, _, _, _),
    .WITH(same<decltype(_1), P1&>() && same<decltype(_2), P2&>() && same<decltype(_3), P3 const&>() && same<decltype(_4), MO&>())
    .SIDE_EFFECT((void)(same<decltype(_1), P1&>() && same<decltype(_2), P2&>() && same<decltype(_4), MO&>()))
    .RETURN(same<decltype(_3), P3 const&>() ? 1 : 0));
  REQUIRE_CALL_V(m, f(_, _, _, _),
    .LR_WITH(same<decltype(_2), P2&>())
    .LR_SIDE_EFFECT((void)same<decltype(_4), MO&>())
    .LR_RETURN(same<decltype(_1), P1&>() ? 1 : 0));
  REQUIRE_CALL_V(m, f(_, _, _, _),
    .THROW(same<decltype(_2), P2&>() ? 1 : 0));
  REQUIRE_CALL_V(m, g(_, _),
    .WITH(same<decltype(_1), P1*&>() && same<decltype(_2), P2&>() && same<decltype(_3), trompeloeil::illegal_argument&&>()));
  REQUIRE_CALL_V(m, h(_, _, _, _, _, _, _, _, _, _, _, _, _, _, _),
    .WITH(same<decltype(_1), P1&>() && same<decltype(_13), P2 const&>() && same<decltype(_14), int&>() && same<decltype(_15), P3&>())
    .RETURN(0));
}
}
int main() {}
'''


def c09a11(ctx):
    """the same positional-alias witness for the C++11 API (the `_V` macros; `_N` is produced there by an explicitly
    typed helper instead of decltype(auto)): decltype(_k) is an lvalue reference to the caller's k:th argument in every
    clause kind, up to position 15, and illegal_argument beyond the arity"""
    gen = facts.gen_dir()
    os.makedirs(gen, exist_ok=True)
    path = os.path.join(gen, "c09_cpp11.cpp")
    with open(path, "w") as fh:
        fh.write(CPP11_WITNESS)
    cfgs = [("clang++", "c++11")] if ctx.tier == "quick" else [("clang++", "c++11"), ("g++", "c++11")]
    res = cc.run_many([(cc.syntax_cmd(c, s, path), None) for c, s in cfgs])
    for (c, s), (rc, out) in zip(cfgs, res):
        ok = rc == 0
        m = re.search(r"error: .*", out)
        ctx.ob("C09.a.cpp11", "_1.._15 in the C++11 macro API", ok, pattern="verif:rules/C09.py", unit="%s@%s" % (c, s),
               detail="" if ok else "positional-alias witness for the C++11 API fails with %s -std=%s: %s"
               % (c, s, (m.group(0)[:300] if m else out[-300:])), witness=None if ok else {"output_tail": out[-1500:]})


def c09e(ctx):
    """rvalue and move-only arguments reach the clauses, and are handed on by RETURN, without being copied: a type
    whose copy operations do not compile when used goes through every path (parameter tuple, _N, WITH / SIDE_EFFECT,
    RETURN(std::move(_N)) and the return-value plumbing); the control - a RETURN that must copy - has to be rejected."""
    gen = facts.gen_dir()
    os.makedirs(gen, exist_ok=True)
    path = os.path.join(gen, "c09_copytrap.cpp")
    with open(path, "w") as fh:
        fh.write(COPY_TRAP)
    quick = ctx.tier == "quick"
    cfgs = [("clang++", "c++17")] if quick else [(c, s) for c in ("clang++", "g++") for s in ("c++14", "c++17", "c++20")]
    jobs = [(cc.syntax_cmd(c, s, path), None) for c, s in cfgs]
    jobs.append((cc.syntax_cmd("clang++", "c++17", path) + ["-DCONTROL"], None))
    res = cc.run_many(jobs)
    for (c, s), (rc, out) in zip(cfgs, res[:-1]):
        ok = rc == 0
        m = re.search(r"error: .*", out)
        ctx.ob("C09.e", "no copy of an rvalue argument on the way to and through the clauses", ok,
               pattern="verif:rules/C09.py", unit="%s@%s" % (c, s),
               detail="" if ok else "a parameter passed as an rvalue is copied (or the witness no longer compiles) with %s "
               "-std=%s: %s" % (c, s, (m.group(0)[:300] if m else out[-300:])),
               witness=None if ok else {"output_tail": out[-1500:]})
    rc, out = res[-1]
    ok = rc != 0 and "COPIED" in out
    ctx.ob("C09.e.control", "negative control (a RETURN that has to copy must not compile)", ok, pattern="verif:rules/C09.py",
           detail="" if ok else "the copy trap does not fire where a copy is certainly made")


def run(ctx):
    ctx.explanation = (
        "C09.a compile-time parametricity witness, generated for every arity 0..15 and the four mock macro families: "
        "parameters are pairwise distinct opaque types in rotating passing modes (value, &, const&, &&, pointer, "
        "move-only); static_asserts require decltype(_k) == remove_reference_t<Pk>& inside WITH, SIDE_EFFECT, RETURN, "
        "THROW and their LR_ twins, illegal_argument beyond the arity, the exact member-function type and the "
        "reference_wrapper tuple type - any permutation, off-by-one or by-value binding fails to compile, so the "
        "witness covers every argument value; negative controls show the witness can fail. C09.b the dispatch "
        "function builds the tuple in place from std::forward of its own parameters in order and hands that very "
        "tuple to the actions. C09.c capture default of every clause lambda by originating macro ([=] vs [&]). "
        "C09.d decay_return_type witnesses (shared with C08.g). C09.e copy-trap witness: a type whose copy operations "
        "do not compile when used is passed by rvalue / by value through parameter tuple, _N, WITH, SIDE_EFFECT and "
        "RETURN(std::move(_N)); a control that must copy is rejected.")
    ctx.assumptions = ["clang 14 / g++ 12 front ends"]
    ctx.not_decided = []
    c09a(ctx)
    c09a11(ctx)
    c09e(ctx)
    seen = set()
    units = []
    seen11 = set()
    def want(n):
        return n.startswith("core") or n.startswith("repo_ct") or n.startswith("coro") or n == "cpp11"
    want.with_cpp11 = True
    for tu in ctx.units(want):
        if tu.find(A["dispatch"]) and tu.name != "cpp11":
            c09b(ctx, tu)
        c09c(ctx, tu, seen11 if tu.name == "cpp11" else seen)
        units.append({"unit": tu.name, "functions": len(tu.fns)})
    ctx.floor("C09.c clause macro kinds seen", len(seen), 8)
    ctx.floor("C09.c clause macro kinds seen in the C++11 macro API", len(seen11), 8)
    C08.c08g(ctx)
    ctx.extra["units"] = units
    ctx.extra["exhaustive"] = True
    ctx.extra["exhaustive_over"] = "arities 0..15 x {MAKE_MOCK, MAKE_CONST_MOCK, IMPLEMENT_MOCK, IMPLEMENT_CONST_MOCK} x 8 clause kinds x 15 placeholders"
