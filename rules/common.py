"""Shared helpers of the rule files: leaf oracle for the TABLE interpreter, loop lookup."""
from engine import cfg, lib, table
from engine.facts import erase
from engine.lib import A, qe
from engine.table import Interp, Unknown

MAXU = (1 << 32) - 1
MAXSZ = (1 << 64) - 1


# ------------------------------------------------------------------------------- helpers
def loop_of(fn, call_name):
    """the loop of fn whose body contains a call of `call_name` (erased)"""
    ls = cfg.loops(fn)
    for l in ls:
        if cfg.events_in_blocks(fn, l["body"] | {l["head"]}, lambda e: e["e"] == "call" and qe(e) == call_name):
            return l
    # the call the loop is usually recognised by may be exactly what a change removed: a function with a
    # single loop is unambiguous
    if len(ls) == 1:
        return ls[0]
    return None


class Oracle:
    """Answers the leaves of an interpreted region from an atom valuation.  Calls are matched by
    template-erased callee name; unknown leaves raise Unknown (-> analysis broken)."""

    def __init__(self, calls=None, params=None, members=None, effects=None):
        self.calls = calls or {}
        self.params = params or {}
        self.members = members or {}
        self.effects = effects if effects is not None else []

    def __call__(self, kind, t, it):
        if kind == "call":
            n = lib.tree_name(t) if t[0] != "ctor" else "ctor " + erase(t[2])
            if n in self.calls:
                h = self.calls[n]
                return h(t, it) if callable(h) else h
            raise Unknown("call of " + str(n))
        if kind == "param":
            if t[1] in self.params:
                return self.params[t[1]]
            raise Unknown("parameter " + str(t[2]))
        if kind == "member":
            f = erase(t[1])
            if f in self.members:
                return self.members[f]
            raise Unknown("member " + f)
        if kind == "this":
            return ("obj", "this")
        if kind == "load":
            if t[0] == "member":
                f = erase(t[1])
                if f in self.members:
                    return self.members[f]
            raise Unknown("load " + str(t))
        raise Unknown(kind + " " + str(t)[:80])


ITER = {
    "trompeloeil::list::iterator::operator*": lambda t, it: ("elem", "cur"),
    "trompeloeil::list::iterator::operator->": lambda t, it: ("ptr", ("elem", "cur")),
    "trompeloeil::list::iterator::operator++": lambda t, it: ("iter", "next"),
}




def iter_env(fn):
    """range-for plumbing variables (__begin/__end/__range) get opaque values"""
    env = {}
    for b, e in fn.events():
        if e["e"] == "decl" and e.get("name", "").startswith("__"):
            env[e["var"]] = ("iter", e["name"])
    return env


def ret_value(fn, oracle):
    return table.eval_return_expr(fn, oracle)
