"""Shared helpers of the rule files: leaf oracle for the TABLE interpreter, loop lookup."""
from engine import cfg, lib, table
from engine.facts import erase
from engine.lib import A, qe
from engine.table import Interp, Unknown

MAXU = (1 << 32) - 1
MAXSZ = (1 << 64) - 1


# ------------------------------------------------------------------------------- helpers
def loop_of(fn, call_name):
    """the loop of fn whose body contains a call of `call_name` (erased)"""
    ls = cfg.loops(fn)
    for l in ls:
        if cfg.events_in_blocks(fn, l["body"] | {l["head"]}, lambda e: e["e"] == "call" and qe(e) == call_name):
            return l
    # the call the loop is usually recognised by may be exactly what a change removed: a function with a
    # single loop is unambiguous
    if len(ls) == 1:
        return ls[0]
    return None


class Oracle:
    """Answers the leaves of an interpreted region from an atom valuation.  Calls are matched by
    template-erased callee name; unknown leaves raise Unknown (-> analysis broken)."""

    def __init__(self, calls=None, params=None, members=None, effects=None, any_member=False, any_call=False,
                 any_param=False):
        # any_call / any_param: calls and parameters the rule does not name evaluate to an opaque value (output
        # plumbing that is never branched on)
        self.any_call = any_call
        self.any_param = any_param
        self.calls = calls or {}
        self.params = params or {}
        self.members = members or {}
        self.effects = effects if effects is not None else []
        # any_member: members the rule does not name evaluate to an opaque object (containers that are only
        # handed to begin()/end(), never branched on: branching on an opaque value is Unknown)
        self.any_member = any_member

    def with_params(self, vals):
        """the same oracle for another activation (a constructor this one delegates to): other parameter values"""
        child = Oracle(self.calls, vals, self.members, self.effects, self.any_member, self.any_call, self.any_param)
        if getattr(self, "tu", None) is not None:
            child.tu = self.tu
            child.depth = getattr(self, "depth", 0)
        child.this_v = getattr(self, "this_v", None)
        return child

    def descend_into(self, tu, depth=3):
        """let calls of library functions the rule does not name be interpreted from their own bodies (a helper the
        code was factored into); virtual calls only when the unit knows exactly one implementation"""
        self.tu = tu
        self.depth = depth
        return self

    def _inline(self, t, it):
        tu = getattr(self, "tu", None)
        if tu is None or getattr(self, "depth", 0) <= 0 or t[0] not in ("call", "mcall", "opcall"):
            return None
        cid = t[1]
        callee = tu.fns.get(cid)
        if callee is None:
            return None
        if t[0] == "mcall" and t[5]:
            tg = [x for x in tu.overriders(cid) if tu.fns[x].has_body]
            if len(tg) != 1:
                return None
            callee = tu.fns[tg[0]]
        if not callee.has_body or not callee.is_lib or callee.rec.get("coro"):
            return None
        args = _args(t)
        this_v = None
        if t[0] == "mcall" or (t[0] == "opcall" and callee.kind in ("method",)):
            recv = args[0]
            args = args[1:]
            try:
                this_v = it.ev(recv)
            except Unknown:
                this_v = ("obj", "receiver")
            if recv == ["this"] or (isinstance(this_v, tuple) and this_v[:2] == ("obj", "this")):
                this_v = ("obj", "this")
        vals = {}
        for i, a in enumerate(args):
            try:
                vals[i] = it.ev(a)
            except Unknown:
                pass             # an argument the callee may never look at
        child = Oracle(self.calls, vals, self.members, self.effects, self.any_member, self.any_call, self.any_param)
        child.tu = tu
        child.depth = self.depth - 1
        child.this_v = this_v
        sub = Interp(callee, child, effects=it.effects)
        kind, val = sub.run()
        it.steps += sub.steps
        if kind == "throw":
            raise Unknown("helper %s throws" % callee.qe)
        return (True, val)

    def __call__(self, kind, t, it):
        if kind == "call":
            n = lib.tree_name(t) if t[0] != "ctor" else "ctor " + erase(t[2])
            if n in self.calls:
                h = self.calls[n]
                return h(t, it) if callable(h) else h
            # operators of any iterator type (containers of the standard library, plain pointers are handled by the
            # interpreter itself) applied to an abstract position
            if t[0] == "opcall" and t[3] in ("!=", "==", "*", "->", "++") and t[4]:
                try:
                    v0 = it.ev(t[4][0])
                except Unknown:
                    v0 = None
                if _pos(v0) is not None:
                    return {"!=": _it_cmp(True), "==": _it_cmp(False), "*": _it_deref, "->": _it_arrow, "++": _it_inc}[t[3]](t, it)
            r = self._inline(t, it)
            if r is not None:
                return r[1]
            if self.any_call:
                return ("opaque", str(n))
            raise Unknown("call of " + str(n))
        if kind == "new":
            if self.any_call:
                return ("opaque", "new")
            raise Unknown("new expression")
        if kind == "param":
            if t[1] in self.params:
                return self.params[t[1]]
            if self.any_param:
                return ("opaque", "param %s" % t[2])
            raise Unknown("parameter " + str(t[2]))
        if kind == "member":
            f = erase(t[1])
            if f in self.members:
                return self.members[f]
            if self.any_member:
                return ("opaque", f)
            raise Unknown("member " + f)
        if kind == "this":
            return getattr(self, "this_v", None) or ("obj", "this")
        if kind == "load":
            if t[0] == "member":
                f = erase(t[1])
                if f in self.members:
                    return self.members[f]
            raise Unknown("load " + str(t))
        if self.any_call and kind in ("str", "enum", "fnref", "lambda", "method", "gvar", "var", "deref"):
            return ("opaque", kind)
        raise Unknown(kind + " " + str(t)[:80])


def _args(t):
    """argument trees of a call-like tree, receiver first"""
    if t[0] == "opcall":
        return list(t[4])
    if t[0] == "mcall":
        return [t[3]] + list(t[4])
    if t[0] == "call":
        return list(t[3])
    return []


def _pos(v):
    """position name of an abstract iterator value"""
    return v[1] if isinstance(v, tuple) and len(v) == 2 and v[0] == "iter" else None


def _it_deref(t, it):
    v = it.ev(_args(t)[0])
    p = _pos(v)
    if p is None:
        return ("elem", "cur")
    if p == "end":
        raise Unknown("dereference of the end iterator")
    return ("elem", p if p in ("cur", "next") else "cur")


def _it_arrow(t, it):
    return ("ptr", _it_deref(t, it))


def _it_inc(t, it):
    a = _args(t)[0]
    v = it.ev(a)
    if _pos(v) == "end":
        raise Unknown("increment of the end iterator")
    nv = ("iter", "next" if _pos(v) != "next" else "skipped")
    try:
        it.store(it.lval(a), nv)
    except Unknown:
        pass
    return nv


def _it_cmp(neg):
    def h(t, it):
        a, b = [it.ev(x) for x in _args(t)[:2]]
        pa, pb = _pos(a), _pos(b)
        if pa is None or pb is None:
            raise Unknown("comparison of %r and %r" % (a, b))
        # plumbing names of a range-for (__begin1 / __end1) stand for "at an element" / "at the end"
        na = "end" if pa == "end" or pa.startswith("__end") else "elem"
        nb = "end" if pb == "end" or pb.startswith("__end") else "elem"
        if na == "elem" and nb == "elem" and pa != pb and not {pa, pb} <= {"cur", "next", "skipped"}:
            raise Unknown("comparison of two element positions")
        eq = (na == nb)
        return (not eq) if neg else eq
    return h


def _minmax(f):
    def h(t, it):
        a, b = [it.ev(x) for x in _args(t)[:2]]
        if not all(isinstance(x, int) and not isinstance(x, bool) for x in (a, b)):
            raise Unknown("std::min/max of %r, %r" % (a, b))
        return f(a, b)
    return h


def _it_assign(t, it):
    a = _args(t)
    v = it.ev(a[1])
    it.store(it.lval(a[0]), v)
    return v


ITER = {
    "trompeloeil::list::iterator::operator=": _it_assign,
    "trompeloeil::list::iterator::operator*": _it_deref,
    "trompeloeil::list::iterator::operator->": _it_arrow,
    "trompeloeil::list::iterator::operator++": _it_inc,
    "trompeloeil::operator!=": _it_cmp(True),
    "trompeloeil::operator==": _it_cmp(False),
    "trompeloeil::list::end": lambda t, it: ("iter", "end"),
    "std::max": _minmax(max),
    "std::min": _minmax(min),
}


class LoopModel:
    """One-iteration abstraction of a loop over a sequence, whatever its spelling: range-for, an explicit
    iterator loop (`for`/`while`, conditions merged with `&&` or tested in the body) or an index loop.

    The iteration is entered at the loop's entry block with the moving iterator either positioned AT an element
    (whose properties the rule's oracle answers as atoms) or AT THE END.  step() interprets until control comes
    back to the entry (`('stop', entry)`: go on to the next element), the function returns (inside the loop or
    in the code after it: `('return', v)`), or throws."""

    def __init__(self, fn, loop):
        self.fn = fn
        self.loop = loop
        self.entry = loop["entry"]
        self.members = set(loop["body"]) | {loop["head"], loop["entry"]}
        self.moving = set()
        self.fixed_end = set()
        self.index = None            # (var, bound tree)
        decls = {e["var"]: e for b, e in fn.events() if e["e"] == "decl"}
        touched = set()
        for bid in self.members:
            for e in fn.blocks[bid]["ev"]:
                if e["e"] == "incdec" and e.get("x", [None])[0] == "var":
                    touched.add(e["x"][1])
                if e["e"] == "call" and e.get("op") in ("++", "--", "=") and (e.get("recv") or [None])[0] == "var":
                    touched.add(e["recv"][1])
                if e["e"] == "assign" and e.get("lhs", [None])[0] == "var":
                    touched.add(e["lhs"][1])
        for v, d in decls.items():
            t = d.get("type") or ""
            n = d.get("name") or ""
            if "iterator" in t or n.startswith("__begin") or n.startswith("__end"):
                if n.startswith("__end"):
                    self.fixed_end.add(v)
                elif v in touched or n.startswith("__begin"):
                    self.moving.add(v)
                else:
                    self.fixed_end.add(v)
        # index loop: the entry condition compares an integral local that the loop advances with a bound
        c = cfg.cond_of(fn, self.entry)
        if not self.moving and isinstance(c, list) and c[:1] == ["b"] and c[1] in ("<", "!=") and c[2][:1] == ["var"] \
                and c[2][1] in touched:
            self.index = (c[2][1], c[3])

    def env_for(self, at, interp):
        env = {}
        for v in self.moving:
            env[v] = ("iter", "cur" if at == "elem" else "end")
        for v in self.fixed_end:
            env[v] = ("iter", "end")
        for b, e in self.fn.events():
            if e["e"] == "decl" and (e.get("name") or "").startswith("__range"):
                env[e["var"]] = ("range", e["name"])
        if self.index is not None:
            bound = interp.ev(self.index[1])
            env[self.index[0]] = 0 if at == "elem" else bound
        return env

    def pre_env(self, oracle):
        """values of the locals on first arrival at the loop entry (the code before the loop interpreted once);
        a rule overrides the locals whose value it enumerates"""
        it = Interp(self.fn, oracle)
        try:
            r = it.run(stop_blocks={self.entry})
        except Unknown:
            return {}
        if r != ("stop", self.entry):
            return {}
        return {k: v for k, v in it.env.items() if not (isinstance(v, tuple) and v and v[0] in ("iter", "range", "opaque"))}

    def step(self, oracle, env=None, at="elem", max_steps=400):
        it = Interp(self.fn, oracle)
        if self.entry != self.fn.entry:
            it.env.update(self.pre_env(oracle))
        it.env.update(self.env_for(at, it))
        it.env.update(env or {})
        res = it.run(start=self.entry, stop_blocks={self.entry}, max_steps=max_steps)
        if res[0] == "stop" and any(it.env.get(v) == ("iter", "skipped") for v in self.moving):
            res = ("skips an element", None)      # the position moved on twice within one iteration
        return res, it


def iter_calls(at="elem", extra=None):
    """the ITER table plus the list-level queries whose answer depends on where the iteration stands"""
    d = dict(ITER)
    d["trompeloeil::list::begin"] = lambda t, it: ("iter", "cur" if at == "elem" else "end")
    d["trompeloeil::list::empty"] = (at != "elem")
    if extra:
        d.update(extra)
    return d




def iter_env(fn):
    """range-for plumbing variables (__begin/__end/__range) get opaque values"""
    env = {}
    for b, e in fn.events():
        if e["e"] == "decl" and e.get("name", "").startswith("__"):
            env[e["var"]] = ("iter", e["name"])
    return env


def ret_value(fn, oracle):
    return table.eval_return_expr(fn, oracle)


class ListSim:
    """A pending list of k abstract elements for rules that must follow a teardown / worklist loop whose list shrinks
    while it runs (the one-iteration abstraction of LoopModel assumes a list that stays as it is).  Elements are
    0..k-1; an element leaves the list when the code unlinks / retires it.  Iterator values are ('it', index) and
    ('it', 'end').  Advancing an iterator whose element has already left the list is reported as Unknown - the
    node's links are no longer those of the list."""

    def __init__(self, k):
        self.k = k
        self.alive = list(range(k))
        self.log = []

    def _first(self):
        return ("it", self.alive[0]) if self.alive else ("it", "end")

    def calls(self, extra=None):
        def begin(t, it):
            return self._first()

        def end(t, it):
            return ("it", "end")

        def empty(t, it):
            return not self.alive

        def deref(t, it):
            v = it.ev(_args(t)[0])
            if not (isinstance(v, tuple) and v[0] == "it") or v[1] == "end":
                raise Unknown("dereference of %r" % (v,))
            return ("elem", v[1])

        def arrow(t, it):
            return ("ptr", deref(t, it))

        def inc(t, it):
            a = _args(t)[0]
            v = it.ev(a)
            if not (isinstance(v, tuple) and v[0] == "it") or v[1] == "end":
                raise Unknown("increment of %r" % (v,))
            if v[1] not in self.alive:
                raise Unknown("an iterator is advanced after its element was unlinked")
            later = [x for x in self.alive if x > v[1]]
            nv = ("it", later[0]) if later else ("it", "end")
            post = len(_args(t)) > 1          # it++ : the old position is the value of the expression
            it.store(it.lval(a), nv)
            return v if post else nv

        def cmp(neg):
            def h(t, it):
                a, b = [it.ev(x) for x in _args(t)[:2]]
                if not all(isinstance(x, tuple) and x[0] == "it" for x in (a, b)):
                    raise Unknown("comparison of %r and %r" % (a, b))
                return (a != b) if neg else (a == b)
            return h

        def assign(t, it):
            a = _args(t)
            v = it.ev(a[1])
            it.store(it.lval(a[0]), v)
            return v

        def elem_of(t, it):
            v = it.ev(_args(t)[0])
            while isinstance(v, tuple) and v and v[0] == "ptr":
                v = v[1]
            if not (isinstance(v, tuple) and v[0] == "elem"):
                raise Unknown("receiver %r is not a list element" % (v,))
            return v[1]

        def unlink(t, it):
            i = elem_of(t, it)
            self.log.append(("unlink", i))
            if i in self.alive:
                self.alive.remove(i)
            return None
        def retire_all(t, it):
            # the handler-level retire: the element's expectation leaves EVERY sequence it is registered in
            recv = _args(t)[0]
            base = recv
            while isinstance(base, list) and base and base[0] == "member":
                base = base[2]
            try:
                i = elem_of(["call", -1, "", [base]], it)
            except Unknown:
                raise Unknown("handler-level retire on %r" % (recv[:2],))
            self.log.append(("retire_all", i))
            if i in self.alive:
                self.alive.remove(i)
            return None
        d = {
            "trompeloeil::sequence_handler_base::retire": retire_all, "trompeloeil::sequence_handler::retire": retire_all,
            "trompeloeil::list::begin": begin, "trompeloeil::list::end": end, "trompeloeil::list::empty": empty,
            "trompeloeil::list::iterator::operator*": deref, "trompeloeil::list::iterator::operator->": arrow,
            "trompeloeil::list::iterator::operator++": inc, "trompeloeil::operator!=": cmp(True),
            "trompeloeil::operator==": cmp(False), "trompeloeil::list::iterator::operator=": assign,
            "trompeloeil::list_elem::unlink": unlink, "trompeloeil::sequence_matcher::retire": unlink,
        }
        self.elem_of = elem_of
        if extra:
            d.update(extra)
        return d
