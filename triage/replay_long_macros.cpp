#define TROMPELOEIL_LONG_MACROS
#include <trompeloeil.hpp>
