#include <trompeloeil.hpp>
#include <thread>
#include <atomic>
#include <iostream>
using namespace trompeloeil;
struct M { MAKE_MOCK1(f, int(int)); };
int main(int argc, char** argv){
  int which = atoi(argv[1]);
  set_reporter([](severity, char const*, unsigned long, std::string const& m){ });
  M m; sequence s;
  ALLOW_CALL(m, f(0)).IN_SEQUENCE(s).RETURN(0);
  std::atomic<bool> stop{false};
  std::thread caller([&]{ while(!stop) m.f(0); });
  std::thread other([&]{
    for (int i = 0; i < 300000; ++i) {
      switch (which) {
      case 8: (void)s.is_completed(); break;
      case 9: { auto e = NAMED_ALLOW_CALL(m, f(1)).IN_SEQUENCE(s).RETURN(1); } break;
      case 10: { auto e = NAMED_REQUIRE_CALL(m, f(1)).IN_SEQUENCE(s).TIMES(0,5).RETURN(1); } break;
      }
    }
    stop = true; });
  other.join(); caller.join();
  std::cout << "done\n";
}
