#include <trompeloeil.hpp>
#include <iostream>
#include <vector>
using namespace trompeloeil;
struct D { virtual ~D() = default; D()=default; D(const D&)=default; D& operator=(const D&)=default; };
struct M { MAKE_MOCK1(f, int(int));
 MAKE_MOCK0(g, void()); };
static std::vector<std::string> reps;
static std::vector<std::string> oks;
struct fatal_ex{};
struct my_tracer : tracer { void trace(char const*, unsigned long, std::string const& s) override { std::cout << "  TRACE " << s; } };
int main(int argc, char** argv){
  int which = atoi(argv[1]);
  set_reporter([](severity s, char const* file, unsigned long line, std::string const& msg){
      std::cout << "  REPORT " << (s==severity::fatal?"FATAL ":"NONFATAL ") << file << ":" << line << " | " << msg.substr(0, msg.find('\n')) << "\n";
      if (s==severity::fatal) throw fatal_ex{}; },
    [](char const* m){ std::cout << "  OK " << m << "\n"; });
  try {
  switch (which) {
  case 13: { M m; auto s = std::make_unique<sequence>(); auto e = NAMED_REQUIRE_CALL(m, f(1)).IN_SEQUENCE(*s).RETURN(0); s.reset(); std::cout << "calling after seq death\n"; m.f(1); break; }
  case 11: { auto d = new deathwatched<D>(); deathwatched<D> other; { auto mon = NAMED_REQUIRE_DESTRUCTION(*d); *d = other; std::cout << "delete d\n"; delete d; std::cout << "release monitor\n"; } break; }
  case 14: { M m; ALLOW_CALL(m, f(_)).RETURN(0); auto t1 = std::make_unique<my_tracer>(); auto t2 = std::make_unique<my_tracer>(); t1.reset(); t2.reset(); std::cout << "call with no tracer alive\n"; m.f(1); break; }
  case 2: { M m; ALLOW_CALL(m, f(1)).RETURN(1); ALLOW_CALL(m, f(2)).RETURN(2); m.f(1); FORBID_CALL(m, f(3)); try { m.f(3);} catch(fatal_ex&){ std::cout << "  (fatal thrown)\n"; } break; }
  case 4: { M m; sequence s; REQUIRE_CALL(m, f(1)).IN_SEQUENCE(s).TIMES(AT_LEAST(1)).RETURN(0); REQUIRE_CALL(m, f(2)).IN_SEQUENCE(s).TIMES(2).RETURN(0); m.f(1); m.f(2); std::cout << "stepping back to f(1)\n"; m.f(1); m.f(2); break; }
  case 5: { M m; sequence s; auto d = new deathwatched<D>(); ALLOW_CALL(m, f(1)).IN_SEQUENCE(s).RETURN(0); REQUIRE_DESTRUCTION(*d).IN_SEQUENCE(s); std::cout << "delete after optional predecessor\n"; delete d; break; }
  case 6: { M m; auto s = std::make_unique<sequence>(); auto d = new deathwatched<D>(); auto mon = NAMED_REQUIRE_DESTRUCTION(*d).IN_SEQUENCE(*s); REQUIRE_CALL(m, f(1)).IN_SEQUENCE(*s).RETURN(0); m.f(1); std::cout << "delete after being passed over\n"; delete d; break; }
  case 7: { auto s = std::make_unique<sequence>(); auto d = new deathwatched<D>(); auto mon = NAMED_REQUIRE_DESTRUCTION(*d).IN_SEQUENCE(*s); delete d; std::cout << "satisfied=" << mon->is_satisfied() << " completed=" << s->is_completed() << "; destroy sequence\n"; s.reset(); break; }
  case 12: { auto d = new deathwatched<D>(); auto m1 = NAMED_REQUIRE_DESTRUCTION(*d); auto m2 = NAMED_REQUIRE_DESTRUCTION(*d); std::cout << "delete d with two monitors\n"; delete d; std::cout << "m1 sat=" << m1->is_satisfied() << " m2 sat=" << m2->is_satisfied() << "\n"; break; }
  case 121: { auto d = new deathwatched<D>(); auto m1 = NAMED_REQUIRE_DESTRUCTION(*d); { auto m2 = NAMED_REQUIRE_DESTRUCTION(*d); delete d; } std::cout << "release m1 (object gone)\n"; break; }
  case 16: { M m; sequence s; REQUIRE_CALL(m, f(1)).IN_SEQUENCE(s).RETURN(0); { REQUIRE_CALL(m, f(2)).IN_SEQUENCE(s).RETURN(0); try { m.f(2);} catch(fatal_ex&){ std::cout << "  (fatal thrown)\n"; } std::cout << "release f(2) expectation\n"; } m.f(1); break; }
  }
  } catch (fatal_ex&) { std::cout << "  (fatal thrown at top)\n"; }
  std::cout << "done\n";
}
