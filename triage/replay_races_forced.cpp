// Forced-schedule replay for F9 / F10 (triage only, not part of any check).
// Build: clang++ -std=c++17 -g -O1 -fsanitize=thread -pthread -DTROMPELOEIL_CUSTOM_RECURSIVE_MUTEX -I/repo/include forced.cpp
// The custom mutex only adds a pause after one chosen unlock; B performs ONE mock call whose
// side effect sleeps while holding the library lock, so that A's unlocked access overlaps it.
#include <atomic>
#include <chrono>
#include <mutex>
#include <thread>
#include <iostream>
#include <trompeloeil.hpp>
using namespace std::chrono_literals;
static std::atomic<int> pause_unlock_of{0};      // thread role whose next unlock pauses
static std::atomic<int> phase{0};
static thread_local int role = 0;
namespace trompeloeil {
struct paused_mutex : custom_recursive_mutex {
  std::recursive_mutex m;
  void lock() override { m.lock(); }
  void unlock() override {
    m.unlock();
    if (role != 0 && pause_unlock_of.load(std::memory_order_relaxed) == role) {
      pause_unlock_of.store(0, std::memory_order_relaxed);
      phase.store(2, std::memory_order_relaxed);           // tell B to make its call
      std::cerr << "[A paused after unlock]\n";
      std::this_thread::sleep_for(300ms);
      std::cerr << "[A resumes: next library access is unlocked]\n";
    }
  }
};
std::unique_ptr<custom_recursive_mutex> create_custom_recursive_mutex() { return std::make_unique<paused_mutex>(); }
}
using namespace trompeloeil;
struct M { MAKE_MOCK1(f, int(int)); };
static void nap() { std::cerr << "[B inside mock call, holding the lock]\n"; std::this_thread::sleep_for(600ms); }
int main(int argc, char** argv) {
  int which = atoi(argv[1]);                     // 9 or 10
  set_reporter([](severity, char const*, unsigned long, std::string const&){});
  M m; sequence s;
  std::unique_ptr<expectation> eA;
  if (which == 9) eA = NAMED_ALLOW_CALL(m, f(1)).IN_SEQUENCE(s).RETURN(1);   // A's handle is first in s
  std::thread B([&]{
    role = 2;
    // register behind A's handle: case 9 as soon as told (phase 1), case 10 once A's handle is in s (phase 2)
    while (phase.load(std::memory_order_relaxed) < (which == 9 ? 1 : 2)) std::this_thread::sleep_for(1ms);
    auto eB = NAMED_ALLOW_CALL(m, f(0)).IN_SEQUENCE(s).SIDE_EFFECT(nap()).RETURN(0);
    if (which == 9) phase.store(3, std::memory_order_relaxed);
    while (phase.load(std::memory_order_relaxed) != 2) std::this_thread::sleep_for(1ms);
    m.f(0);        // walks s (reads A's handle: links and limits), then naps with the lock held
  });
  role = 1;
  if (which == 10) {
    // F10: IN_SEQUENCE registers A's handle (locked, then pause); TIMES then writes the limits unlocked.
    pause_unlock_of.store(1, std::memory_order_relaxed);
    eA = NAMED_REQUIRE_CALL(m, f(1)).IN_SEQUENCE(s).TIMES(0, 5).RETURN(1);
  } else {
    // F9: ~call_matcher's body unlinks under the lock, releases it (pause); the handle is unlinked afterwards.
    phase.store(1, std::memory_order_relaxed);
    while (phase.load(std::memory_order_relaxed) != 3) std::this_thread::sleep_for(1ms);
    pause_unlock_of.store(1, std::memory_order_relaxed);
    eA.reset();
  }
  B.join();
  std::cout << "done\n";
}
