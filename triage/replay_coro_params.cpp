#include <trompeloeil.hpp>
#include "/repo/test/micro_coro.hpp"
#include <iostream>
struct M { MAKE_MOCK1(gen, coro::generator<int>(int)); };
int main(){
  M m;
  REQUIRE_CALL(m, gen(trompeloeil::_)).CO_YIELD(_1).CO_YIELD(_1 + 1).CO_RETURN();
  auto g = m.gen(40);
  // burn some stack so the dead frame is reused
  volatile char junk[4096]; for (auto& c : junk) c = 0x55;
  int n = 0;
  std::invoke([&]() -> coro::task<void> {
    int v = co_await g; std::cout << "yield " << v << "\n"; v = co_await g; std::cout << "yield " << v << "\n"; (void)n;
  });
  std::cout << "done\n";
}
