#!/usr/bin/env python3
"""selftest/run.py [name-filter]  - tests the checker both ways.

MUTANTS: one-edit variants of /repo/include that still compile; the named checks must report the
named rule.  BENIGN: behaviour-preserving edits; the named checks must stay silent (exit 0).
Each variant is applied to a scratch copy of /repo in a mktemp directory outside /repo and /verif,
removed immediately afterwards.  Results are written to selftest/RESULTS.json."""
import json
import os
import re
import shutil
import subprocess
import sys
import tempfile
from concurrent.futures import ThreadPoolExecutor

VERIF = os.path.dirname(os.path.dirname(os.path.abspath(__file__)))
M = "include/trompeloeil/mock.hpp"
S = "include/trompeloeil/sequence.hpp"
L = "include/trompeloeil/lifetime.hpp"
R = "include/trompeloeil/matcher/range.hpp"
CO = "include/trompeloeil/coro.hpp"


def sub(pat, rep, count=1, flags=0):
    return lambda text: re.sub(pat, rep, text, count=count, flags=flags)


def lit(old, new, count=1):
    def f(text):
        if old not in text:
            return text
        return text.replace(old, new, count)
    return f


FWD_OLD = '''    {
      using coro_type = return_of_t<Sig>;
      using promise_type = typename std::coroutine_traits<coro_type>::promise_type;
      using value_type = coro_value_type_t<coro_type>;
      if constexpr (requires {std::declval<promise_type&>().yield_value(std::declval<value_type>());})
      {
        for (auto & e : *yields)
        {
          co_yield e.expr(params);
        }
      }
      co_return func(params);
    }
  private:'''


def fwd(listparam):
    """co_return_handler_t::call forwards to a private static coroutine taking the yield list as `listparam`"""
    return '''    {
      return run(func, yields, params);
    }
  private:
    static
    return_of_t<Sig>
    run(
      T& f,
      %s exprs,
      call_params_type_t<Sig>& params)
    {
      using coro_type = return_of_t<Sig>;
      using promise_type = typename std::coroutine_traits<coro_type>::promise_type;
      using value_type = coro_value_type_t<coro_type>;
      if constexpr (requires {std::declval<promise_type&>().yield_value(std::declval<value_type>());})
      {
        for (auto & e : *exprs)
        {
          co_yield e.expr(params);
        }
      }
      co_return f(params);
    }''' % listparam


# (name, file, edit, checks, rule prefixes expected among the reports, corpus file that must still compile)
MUTANTS = [
    ("M01-dispatch-searches-saturated", M, lit("auto i = find(e.active, param_value);", "auto i = find(e.saturated, param_value);"), ["C01"], ["C01.a"], "core"),
    ("M02-matches-ignores-with", M, lit("return match_parameters(val, params) && match_conditions(params);", "return match_parameters(val, params);"), ["C01", "C08"], ["C01.d"], "core"),
    ("M03-nomatch-nonfatal", M, lit("send_report<specialized>(severity::fatal, location{}, os.str());\n    std::abort();", "send_report<specialized>(severity::nonfatal, location{}, os.str());\n    std::abort();"), ["C01", "C15"], ["C01.b", "C15.a"], "core"),
    ("M05-decommission-no-unlink", M, lit("        m.mock_destroyed();\n        m.unlink();", "        m.mock_destroyed();"), ["C04", "C01"], ["C04.e"], "core"),
    ("M06-saturated-stays-active", M, lit("          this->unlink();\n          saturated_list.push_back(this);", "          (void)saturated_list;"), ["C03"], ["C03.d"], "core"),
    ("M07-find-le", M, lit("if (!first_match || cost < lowest_cost)", "if (!first_match || cost <= lowest_cost)"), ["C02"], ["C02.a"], "core"),
    ("M08-hook-last-appends", M, lit("      list.push_front(this);", "      list.push_back(this);"), ["C02"], ["C02.b"], "core"),
    ("M10-matcher-list-saturated", M, lit("return TROMPELOEIL_LINE_ID(expectations).active; ", "return TROMPELOEIL_LINE_ID(expectations).saturated;"), ["C02"], ["C02.d"], "core"),
    ("M11-satisfied-gt", M, lit("return call_count >= min_calls;", "return call_count > min_calls;"), ["C03"], ["C03.a"], "core"),
    ("M12-saturated-ge-min", M, lit("return call_count == max_calls;", "return call_count >= min_calls;"), ["C03"], ["C03.a"], "core"),
    ("M13-set-limits-swapped", M, lit("      min_calls = L;\n      max_calls = H;", "      min_calls = H;\n      max_calls = L;"), ["C03"], ["C03.b"], "core"),
    ("M15-rt-times-check-late", M, lit("""      if (bounds.high < bounds.low)
      {
         throw std::logic_error{"In RT_TIMES the first value must not exceed the second"};
      }

      {
        auto lock = get_lock();
        m.matcher->sequences->set_limits(bounds.low, bounds.high);
      }""", """      {
        auto lock = get_lock();
        m.matcher->sequences->set_limits(bounds.low, bounds.high);
      }
      if (bounds.high < bounds.low)
      {
         throw std::logic_error{"In RT_TIMES the first value must not exceed the second"};
      }"""), ["C03"], ["C03.e"], "core"),
    ("M16-increment-by-two", M, lit("      ++call_count;", "      call_count += 2;"), ["C03"], ["C03.d"], "core"),
    ("M17-unfulfilled-drops-reported", M, lit("return !reported && this->is_linked() && !sequences->is_satisfied();", "return this->is_linked() && !sequences->is_satisfied();"), ["C04"], ["C04.a"], "core"),
    ("M18-unfulfilled-drops-linked", M, lit("return !reported && this->is_linked() && !sequences->is_satisfied();", "return !reported && !sequences->is_satisfied();"), ["C04"], ["C04.a"], "core"),
    ("M19-report-missed-no-flag", M, lit("      reported = true;\n      report_unfulfilled(", "      report_unfulfilled("), ["C04"], ["C04.c"], "core"),
    ("M21-decommission-unlink-first", M, lit("        m.mock_destroyed();\n        m.unlink();", "        m.unlink();\n        m.mock_destroyed();"), ["C04"], ["C04.e"], "core"),
    ("M22-cost-ignores-unsatisfied", S, lit("      if (!e.is_satisfied())\n      {\n        return ~0U;\n      }\n      ++sequence_cost;", "      ++sequence_cost;"), ["C05"], ["C05.a"], "core"),
    ("M23-order-minimum", S, lit("        if (cost > highest_order) {", "        if (cost < highest_order) {"), ["C05", "C02"], ["C05.b"], "core"),
    ("M24-validate-after-increment", M, lit("""        if (!sequences->can_be_called())
        {
          sequences->validate(severity::fatal, name, loc);
        }
        sequences->increment_call();""", """        sequences->increment_call();
        if (!sequences->can_be_called())
        {
          sequences->validate(severity::fatal, name, loc);
        }"""), ["C05", "C01"], ["C05.d.2"], "core"),
    ("M25-retire-until-also-retires-m", S, lit("      if (first == m) return;\n      first->retire();", "      first->retire();\n      if (first == m) return;"), ["C05"], ["C05.c"], "core"),
    ("M26-sequence-registration-prepends", S, lit("    matchers.push_back(m);", "    matchers.push_front(m);"), ["C05"], ["C05.e"], "core"),
    ("M27-is-completed-any", S, lit("      if (!matcher.is_satisfied())\n      {\n        return false;\n      }\n    }\n    return true;", "      if (matcher.is_satisfied())\n      {\n        return true;\n      }\n    }\n    return false;"), ["C06"], ["C06.a"], "core"),
    ("M28-sequence-teardown-fatal", S, lit("send_report<specialized>(severity::nonfatal, location{}, os.str());", "send_report<specialized>(severity::fatal, location{}, os.str());"), ["C15", "C06"], ["C15.a"], "core"),
    ("M30a-F4-reverted", M, lit("        sequences->increment_call();\n        sequences->retire_predecessors();", "        sequences->increment_call();\n        if (sequences->is_satisfied())\n        {\n          sequences->retire_predecessors();\n        }"), ["C05"], ["C05.d.3"], "core"),
    ("M31-forbidden-after-increment", M, lit("""      if (sequences->is_forbidden())
      {
        reported = true;
        report_forbidden_call(name, loc, params_string(params));
      }
      auto lock = get_lock();
      {
        if (!sequences->can_be_called())
        {
          sequences->validate(severity::fatal, name, loc);
        }
        sequences->increment_call();""", """      auto lock = get_lock();
      {
        if (!sequences->can_be_called())
        {
          sequences->validate(severity::fatal, name, loc);
        }
        sequences->increment_call();
        if (sequences->is_forbidden())
        {
          reported = true;
          report_forbidden_call(name, loc, params_string(params));
        }"""), ["C07"], ["C07.b"], "core"),
    ("M33-forbidden-nonfatal", M, lit("send_report<specialized>(severity::fatal, loc, os.str());", "send_report<specialized>(severity::nonfatal, loc, os.str());"), ["C07", "C15"], ["C07.b", "C15.a"], "core"),
    ("M34-side-effect-prepends", M, lit("      actions.push_back(effect);", "      actions.push_front(effect);"), ["C08"], ["C08.c"], "core"),
    ("M36-side-effects-before-count", M, lit("""      auto lock = get_lock();
      {
        if (!sequences->can_be_called())""", """      for (auto& a : actions) a.action(params);
      auto lock = get_lock();
      {
        if (!sequences->can_be_called())"""), ["C08"], ["C08.b"], "core"),
    ("M37-match-conditions-all", M, lit("        if (!c.check(params)) return false;\n      }\n      return true;", "        if (!c.check(params)) ok = false;\n      }\n      return ok;").__call__ and (lambda t: t.replace("        if (!c.check(params)) return false;\n      }\n      return true;", "        if (!c.check(params)) ok = false;\n      }\n      return ok;", 1).replace("      for (auto& c : conditions)\n      {\n        if (!c.check(params)) ok = false;", "      bool ok = true;\n      for (auto& c : conditions)\n      {\n        if (!c.check(params)) ok = false;", 1)), ["C08"], ["C08.d"], "core"),
    ("M38-with-captures-by-ref", M, lit("#define TROMPELOEIL_WITH(...)    TROMPELOEIL_WITH_(=,#__VA_ARGS__, __VA_ARGS__)", "#define TROMPELOEIL_WITH(...)    TROMPELOEIL_WITH_(&,#__VA_ARGS__, __VA_ARGS__)"), ["C09"], ["C09.c"], "core"),
    ("M39-params15-swapped", M, lit("#define TROMPELOEIL_PARAMS15 TROMPELOEIL_PARAMS14, p15\n#define TROMPELOEIL_PARAMS14 TROMPELOEIL_PARAMS13, p14", "#define TROMPELOEIL_PARAMS15 TROMPELOEIL_PARAMS13, p15, p14\n#define TROMPELOEIL_PARAMS14 TROMPELOEIL_PARAMS13, p14"), ["C09"], ["C09.a"], "core"),
    ("M40-arg-wrong-index", M, lit("    auto&& _2 = ::trompeloeil::mkarg<2>(trompeloeil_x);                        \\\n", "    auto&& _2 = ::trompeloeil::mkarg<1>(trompeloeil_x);                        \\\n"), ["C09"], ["C09.a"], "core"),
    ("M42-less-le", "include/trompeloeil/matcher/compare.hpp", lit("TROMPELOEIL_MK_PRED_BINOP(less, <);", "TROMPELOEIL_MK_PRED_BINOP(less, <=);"), ["C10"], ["C10.a"], "matchers"),
    ("M43-eq-from-not-equal", "include/trompeloeil/matcher/compare.hpp", lit("  return make_matcher<T>(lambdas::equal(),\n                         lambdas::equal_printer(),", "  return make_matcher<T>(lambdas::not_equal(),\n                         lambdas::equal_printer(),").__call__ and (lambda t: t.replace("make_matcher_return<T, lambdas::equal, lambdas::equal_printer, V>>\ninline\nauto\neq(", "make_matcher_return<T, lambdas::not_equal, lambdas::equal_printer, V>>\ninline\nauto\neq(", 1).replace("  return make_matcher<T>(lambdas::equal(),\n                         lambdas::equal_printer(),", "  return make_matcher<T>(lambdas::not_equal(),\n                         lambdas::equal_printer(),", 1)), ["C10"], ["C10.a"], "matchers"),
    ("M44-none-of-returns-any", "include/trompeloeil/matcher/set_predicate.hpp", lit("    return !any_true;", "    return any_true;"), ["C10"], ["C10.e"], "matchers"),
    ("M45-deref-no-null-guard", "include/trompeloeil/matcher/deref.hpp", lit("return (u != nullptr) && m.matches(*u);", "return m.matches(*u);"), ["C10"], ["C10.d"], "matchers"),
    ("M46-re-no-null-guard", "include/trompeloeil/matcher/re.hpp", lit("return str && std::regex_search(str.begin(), str.end(), re, match_type);", "return std::regex_search(str.begin(), str.end(), re, match_type);"), ["C10"], ["C10.g"], "matchers"),
    ("M47-operand-order", "include/trompeloeil/matcher.hpp", lit("return Predicate::operator()(std::forward<V>(v), std::get<I>(value)...);", "return Predicate::operator()(std::get<I>(value)..., std::forward<V>(v));"), ["C10"], ["C10.a"], "matchers"),
    ("M48-none-of-any-of", R, lit("    return std::none_of(it, e,", "    return std::any_of(it, e,"), ["C11"], ["C11.a"], "matchers"),
    ("M49-ends-with-no-size-guard", R, lit("    if (size < num_values)\n    {\n      return false;\n    }\n    std::advance(it, size - num_values);\n    bool all_true = true;", "    std::advance(it, size - num_values);\n    bool all_true = true;"), ["C11"], ["C11.b"], "matchers"),
    ("M50-range-is-drops-end", R, lit("    return all_true && it == e;", "    return all_true;"), ["C11"], ["C11.c"], "matchers"),
    ("M51-includes-forgets-pop", R, lit("      if (found != matchers.end()) {\n        *found = std::move(matchers.back());\n        matchers.pop_back();\n      }", "      if (found != matchers.end()) {\n        *found = std::move(matchers.back());\n      }"), ["C11"], ["C11.d"], "matchers"),
    ("M52-permutation-drops-pending", R, lit("    return it == e && matchers.empty();", "    return it == e;"), ["C11"], ["C11.c"], "matchers"),
    ("M54-query-no-lock", M, lit("      auto lock = get_lock();\n      return sequences->is_satisfied();", "      return sequences->is_satisfied();"), ["C12"], ["C12.a", "C12.g"], "core"),
    ("M55-dtor-no-lock", M, lit("    ~call_matcher() override\n    {\n      auto lock = get_lock();", "    ~call_matcher() override\n    {"), ["C12"], ["C12.a", "C12.g"], "core"),
    ("M56-make-expectation-no-lock", M, lit("      auto lock = get_lock();\n      m.matcher->hook_last(", "      m.matcher->hook_last("), ["C12"], ["C12.a", "C12.g"], "core"),
    ("M57-second-mutex", S, lit("      auto lock = get_lock();\n      seq.add_last(this);", "      static std::mutex seq_mutex;\n      std::lock_guard<std::mutex> guard(seq_mutex);\n      seq.add_last(this);"), ["C12"], ["C12.a", "C12.d"], "core"),
    ("M59a-F8-reverted", S, lit("bool is_completed() const { auto lock = get_lock(); return obj->is_completed(); }", "bool is_completed() const { return obj->is_completed(); }"), ["C12"], ["C12.a", "C12.g"], "core"),
    ("M59c-F10-reverted", M, lit("      {\n        auto lock = get_lock();\n        m.matcher->sequences->set_limits(L, H);\n      }", "      m.matcher->sequences->set_limits(L, H);"), ["C12"], ["C12.a"], "core"),
    ("M60-F11-reverted", M, lit("      const null_on_move&)\n    noexcept\n    {\n      return *this;", "      const null_on_move&)\n    noexcept\n    {\n      p = nullptr;\n      return *this;"), ["C13"], ["C13.a"], "core"),
    ("M61-deathwatched-reports-although-monitored", L, lit("    trompeloeil_lifetime_monitor->notify();\n    return;", "    trompeloeil_lifetime_monitor->notify();"), ["C13"], ["C13.b"], "core"),
    ("M62-monitor-nulls-slot-unconditionally", L, lit("      object_monitor = nullptr; // prevent its death poking this cadaver\n    }", "    }\n    object_monitor = nullptr;"), ["C13", "C14"], ["C13.c"], "core"),
    ("M63-notify-no-died", L, lit("    died = true;\n    if (!sequences->can_be_called())", "    if (!sequences->can_be_called())"), ["C13"], ["C13.d"], "core"),
    ("M64-null-on-move-copy-copies", M, lit("    null_on_move(\n      null_on_move const&)\n    noexcept\n    {}", "    null_on_move(\n      null_on_move const& r)\n    noexcept\n    : p(r.p)\n    {}"), ["C13"], ["C13.a"], "core"),
    ("M65-decommission-advance-late", M, lit("        ++iter; // intrusive list, so must advance to next before destroying\n        m.mock_destroyed();\n        m.unlink();", "        m.mock_destroyed();\n        m.unlink();\n        ++iter;"), ["C04", "C14"], ["C04.e"], "core"),
    ("M67-node-dtor-no-unlink", M, lit("    virtual\n    ~list_elem()\n    {\n      unlink();\n    }", "    virtual\n    ~list_elem()\n    {\n    }"), ["C14", "C06"], ["C14.a", "C06.c"], "core"),
    ("M68-notify-fatal", L, lit("sequences->validate(severity::nonfatal, call_name, loc);", "sequences->validate(severity::fatal, call_name, loc);"), ["C15"], ["C15.a"], "core"),
    ("M69-unfulfilled-empty-location", M, lit("    os << values;\n    send_report<specialized>(severity::nonfatal, loc, os.str());", "    os << values;\n    send_report<specialized>(severity::nonfatal, location{}, os.str());"), ["C15", "C04"], ["C15.b"], "core"),
    ("M70-nomatch-lists-every-with", M, lit("            os << \"\\n  Failed WITH(\" << cond.name() << ')';\n            break;", "            os << \"\\n  Failed WITH(\" << cond.name() << ')';"), ["C08"], ["C08.d"], "core"),
    ("M71-F2-reverted", M, lit("      send_ok_report<specialized>(name);\n      for (auto& a : actions)", "      for (auto& a : actions)").__call__ and (lambda t: t.replace("      send_ok_report<specialized>(name);\n      for (auto& a : actions)", "      for (auto& a : actions)", 1).replace("                      param_value);\n    }\n    trace_agent ta", "                      param_value);\n    }\n    else{\n        report_match(e.active);\n    }\n    trace_agent ta", 1)), ["C16"], ["C16.b"], "core"),
    ("M73-ok-twice", M, lit("      send_ok_report<specialized>(name);\n      for (auto& a : actions)", "      send_ok_report<specialized>(name);\n      send_ok_report<specialized>(name);\n      for (auto& a : actions)"), ["C16"], ["C16.a"], "core"),
    ("M74-set-reporter-returns-new", M, lit("    return detail::exchange(reporter_obj(), std::move(f));", "    reporter_obj() = std::move(f);\n    return reporter_obj();"), ["C16"], ["C16.c"], "core"),
    ("M75-tracer-dtor-installs-null", M, lit("      set_tracer(previous);", "      set_tracer(nullptr);"), ["C17"], ["C17.d"], "core"),
    ("M77-catch-all-no-record", M, lit("      ta.trace_exception();\n      throw;", "      throw;"), ["C17"], ["C17.b"], "core"),
    ("M79-print-no-null-guard", M, lit("    if (is_null(t))\n    {\n      os << \"nullptr\";\n    }\n    else\n    {\n      printer<T>::print(os, t);\n    }", "    printer<T>::print(os, t);"), ["C18"], ["C18.a"], "printing"),
    ("M80-sentry-forgets-fill", M, lit("      os.flags(flags);\n      os.fill(fill);\n      os.width(width);", "      os.flags(flags);\n      os.width(width);"), ["C18"], ["C18.b"], "printing"),
    ("M81-streamable-no-sentry", M, lit("      stream_sentry s(os);\n      os << t;", "      os << t;"), ["C18"], ["C18.c"], "printing"),
    ("M82-collection-inserts-directly", M, lit("                      os << sep;\n                      ::trompeloeil::print(os, element);", "                      os << sep << element;"), ["C18"], ["C18.a"], "printing"),
    ("M84-F1-reverted", S, lit("#ifndef TROMPELOEIL_LONG_MACROS\n#define IN_SEQUENCE", "#ifndef TROMPELOEIL_LONG_MACRCOS\n#define IN_SEQUENCE"), ["C19"], ["C19.d"], "core"),
    ("M83-static-assert-deleted", M, lit("      static_assert(is_coroutine || is_first_return,\n                    \"Multiple RETURN does not make sense\");", ""), ["C19"], ["C19.a", "C19.b"], "core"),
    ("M86-co-yield-prepends", CO, lit("        m.matcher->yield_expressions->push_back(expr);", "        m.matcher->yield_expressions->push_front(expr);"), ["C20"], ["C20.c"], "coro"),
    ("M88-co-return-fresh-list", CO, lit("        m.matcher->return_handler_obj.reset(\n          new handler(std::forward<H>(h),\n          m.matcher->yield_expressions)", "        m.matcher->return_handler_obj.reset(\n          new handler(std::forward<H>(h),\n          std::make_shared<yield_expr_list<signature>>())"), ["C20"], ["C20.c"], "coro"),
    ("M87-handler-returns-before-yielding", CO, lit("""        for (auto & e : *yields)
        {
          co_yield e.expr(params);
        }
      }
      co_return func(params);""", """        for (auto & e : *yields)
        {
          co_yield e.expr(params);
          break;
        }
      }
      co_return func(params);"""), ["C20"], ["C20.b"], "coro"),
    ("M90-actions-outside-try", M, lit('    try\n    {\n      ta.trace_params(param_value);\n      i->run_actions(param_value, e.saturated);\n      return i->return_value(ta, param_value);\n    }', '    ta.trace_params(param_value);\n    i->run_actions(param_value, e.saturated);\n    try\n    {\n      return i->return_value(ta, param_value);\n    }'), ["C17"], ["C17.b.exc.scope"], "core"),
    ("M91-hexdump-lambda-char", M, lit("[&os, &byte_number](unsigned byte) {", "[&os, &byte_number](char byte) {"), ["C18"], ["C18.d.bytes"], "printing"),
    ("M92-hexdump-span-short", M, lit("bytes(static_cast<uint8_t const*>(begin), size);", "bytes(static_cast<uint8_t const*>(begin), size - 1);"), ["C18"], ["C18.d"], "printing"),
    ("M93-hexdump-signed-read", M, lit("mini_span<uint8_t const> bytes(static_cast<uint8_t const*>(begin), size);", "mini_span<signed char const> bytes(static_cast<signed char const*>(begin), size);"), ["C18"], ["C18.d.bytes"], "printing"),
    ("M94-mini-span-end-short", M, lit("end_(address + size)", "end_(address + size - 1)"), ["C18"], ["C18.d"], "printing"),
    ("M96-global-mutex-thread-local", M, lit("static auto mutex = new (&buffer) std::recursive_mutex;", "static thread_local auto mutex = new std::recursive_mutex;"), ["C12"], ["C12.d.global"], "core"),
    ("M97-reporter-thread-local", M, lit("static reporter_func obj = default_reporter;", "static thread_local reporter_func obj = default_reporter;"), ["C16"], ["C16.c.global"], "core"),
    ("M98-tracer-pointer-thread-local", M, lit("static tracer* ptr = nullptr;", "static thread_local tracer* ptr = nullptr;"), ["C17"], ["C17.d.global"], "core"),
    ("M99-forbidden-report-prints-expectation", M, lit("report_forbidden_call(name, loc, params_string(params));", "report_forbidden_call(name, loc, params_string(val));"), ["C15"], ["C15.d.actual"], "core"),
    ("M100-stream-params-mislabelled", M, lit("missed_value(os, I, std::get<I>(t))", "missed_value(os, 0, std::get<I>(t))"), ["C15"], ["C15.d.every"], "core"),
    ("M101-collection-element-by-decayed-value", M, lit("using element_type = decltype(*std::begin(t));", "using element_type = detail::decay_t<decltype(*std::begin(t))>;"), ["C18"], ["C18.a.nested"], "printing"),
    ("M95-forwarded-coroutine-temporary-list", CO, lit('    {\n      using coro_type = return_of_t<Sig>;\n      using promise_type = typename std::coroutine_traits<coro_type>::promise_type;\n      using value_type = coro_value_type_t<coro_type>;\n      if constexpr (requires {std::declval<promise_type&>().yield_value(std::declval<value_type>());})\n      {\n        for (auto & e : *yields)\n        {\n          co_yield e.expr(params);\n        }\n      }\n      co_return func(params);\n    }\n  private:', '    {\n      return run(func, yields, params);\n    }\n  private:\n    static\n    return_of_t<Sig>\n    run(\n      T& f,\n      const std::shared_ptr<const yield_expr_list<Sig>>& exprs,\n      call_params_type_t<Sig>& params)\n    {\n      using coro_type = return_of_t<Sig>;\n      using promise_type = typename std::coroutine_traits<coro_type>::promise_type;\n      using value_type = coro_value_type_t<coro_type>;\n      if constexpr (requires {std::declval<promise_type&>().yield_value(std::declval<value_type>());})\n      {\n        for (auto & e : *exprs)\n        {\n          co_yield e.expr(params);\n        }\n      }\n      co_return f(params);\n    }'), ["C20"], ["C14.f"], "coro"),
]

BENIGN = [
    ("B02-respelled-predicates", M, lambda t: t.replace("return call_count >= min_calls;", "return !(call_count < min_calls);", 1).replace("return call_count == max_calls;", "return call_count >= max_calls;", 1), ["C03", "C07"], "core"),
    ("B04-no-early-return-on-zero-cost", M, lit("        if (cost == 0)\n        {\n          return &i;\n        }\n", ""), ["C02"], "core"),
    ("B06-saturation-order", M, lit("          sequences->retire();\n          this->unlink();\n          saturated_list.push_back(this);", "          this->unlink();\n          sequences->retire();\n          saturated_list.push_back(this);"), ["C03", "C05", "C06", "C01"], "core"),
    ("B07-extra-nested-lock", M, lit("    noexcept\n    {\n      reported = true;\n      report_unfulfilled(", "    noexcept\n    {\n      auto lock2 = get_lock();\n      reported = true;\n      report_unfulfilled("), ["C12", "C04"], "core"),
    ("B10-iterator-loop-in-match-conditions", M, lit("      for (auto& c : conditions)\n      {\n        if (!c.check(params)) return false;\n      }\n      return true;", "      for (auto c = conditions.begin(); c != conditions.end(); ++c)\n      {\n        if (!c->check(params)) return false;\n      }\n      return true;"), ["C08", "C01"], "core"),
    ("B11-reported-after-send", M, lit("      reported = true;\n      report_unfulfilled(\n        reason,\n        name,\n        params_string(val),\n        sequences->get_min_calls(),\n        sequences->get_calls(),\n        loc);", "      report_unfulfilled(\n        reason,\n        name,\n        params_string(val),\n        sequences->get_min_calls(),\n        sequences->get_calls(),\n        loc);\n      reported = true;"), ["C04"], "core"),
    ("B13-report-wording", M, lit("\"No match for call of \"", "\"No expectation matches the call of \""), ["C15", "C01", "C03"], "core"),
    ("B14-diagnostic-line-in-dispatch", M, lit("    auto i = find(e.active, param_value);", "    (void)sig_name; (void)func_name;\n    auto i = find(e.active, param_value);"), ["C01", "C08", "C16", "C17", "C09", "C12"], "core"),
    ("B15-set-reporter-save-assign-return", M, lit("    return detail::exchange(reporter_obj(), std::move(f));", "    auto old = std::move(reporter_obj());\n    reporter_obj() = std::move(f);\n    return old;"), ["C16"], "core"),
    ("B16-cost-type-size_t", S, lambda t: t, ["C05"], "core"),
    ("B17-saturated-ge", M, lit("return call_count == max_calls;", "return call_count >= max_calls;"), ["C03"], "core"),
    ("B18-unlink-before-report-in-dtor", M, lit("      if (is_unfulfilled())\n      {\n        report_missed(\"Unfulfilled expectation\");\n      }\n      this->unlink();\n      sequences->retire();", "      const bool missed = is_unfulfilled();\n      this->unlink();\n      sequences->retire();\n      if (missed)\n      {\n        report_missed(\"Unfulfilled expectation\");\n      }"), ["C04", "C12", "C01"], "core"),
    ("B19-find-candidate-renamed", M, lambda t: t.replace("first_match", "best").replace("lowest_cost", "best_cost"), ["C02", "C01"], "core"),
    ("B21-saturated-flag-renamed", M, lambda t: t.replace("saturated_match", "found_saturated"), ["C15", "C03", "C04"], "core"),
    ("B22-deathwatched-branches-swapped", L, lit("""  if (trompeloeil_lifetime_monitor)
  {
    trompeloeil_lifetime_monitor->notify();
    return;
  }
  std::ostringstream os;
  os << "Unexpected destruction of "
     << TROMPELOEIL_TYPE_ID_NAME(T) << "@" << this << '\\n';
  send_report<specialized>(severity::nonfatal,
                           location{},
                           os.str());""", """  if (!trompeloeil_lifetime_monitor)
  {
    std::ostringstream os;
    os << "Unexpected destruction of "
       << TROMPELOEIL_TYPE_ID_NAME(T) << "@" << this << '\\n';
    send_report<specialized>(severity::nonfatal,
                             location{},
                             os.str());
  }
  else
  {
    trompeloeil_lifetime_monitor->notify();
  }"""), ["C13", "C12", "C15", "C14"], "core"),
    ("B24-sentry-restore-order", M, lit("      os.flags(flags);\n      os.fill(fill);\n      os.width(width);", "      os.width(width);\n      os.fill(fill);\n      os.flags(flags);"), ["C18"], "printing"),
    ("B25-range-guard-respelled", R, lambda t: t.replace("      if (it == e) return false;", "      if (!(it != e)) return false;"), ["C11"], "matchers"),
    ("B26-any-of-or-assign", "include/trompeloeil/matcher/set_predicate.hpp", lit("(any_true = any_true || trompeloeil::param_matches(compare, std::ref(t)))...\n    });\n    return any_true;", "(any_true = trompeloeil::param_matches(compare, std::ref(t)) || any_true)...\n    });\n    return any_true;"), ["C10"], "matchers"),
    ("B27-yield-loop-with-iterator", CO, lit("""        for (auto & e : *yields)
        {
          co_yield e.expr(params);
        }""", """        for (auto it = yields->begin(); it != yields->end(); ++it)
        {
          co_yield it->expr(params);
        }"""), ["C20"], "coro"),
    ("B28-is-satisfied-swapped-operands", M, lit("return call_count >= min_calls;", "return min_calls <= call_count;"), ["C03", "C07"], "core"),
    ("B29-lock-name-changed", M, lambda t: t.replace("auto lock = get_lock();", "auto guard_ = get_lock();"), ["C12", "C05"], "core"),
    ("B30-cost-loop-index", S, lit("""    unsigned sequence_cost = 0U;
    for (auto const& e : matchers)
    {
      if (&e == m) return sequence_cost;
      if (!e.is_satisfied())
      {
        return ~0U;
      }
      ++sequence_cost;
    }
    return ~0U;""", """    unsigned sequence_cost = 0U;
    for (auto const& e : matchers)
    {
      if (&e == m) return sequence_cost;
      if (e.is_satisfied())
      {
        ++sequence_cost;
        continue;
      }
      return ~0U;
    }
    return ~0U;"""), ["C05", "C02"], "core"),
    ("B20-notify-retire-unconditional", L, lit("    if (sequences->is_satisfied())\n    {\n      sequences->retire_predecessors();\n    }", "    sequences->retire_predecessors();"), ["C05", "C13", "C06"], "core"),
    ("B40-hexdump-counted-loop", M, lit('    mini_span<uint8_t const> bytes(static_cast<uint8_t const*>(begin), size);\n    size_t byte_number = 0;\n    std::for_each(bytes.begin(), bytes.end(),  [&os, &byte_number](unsigned byte) {\n      os << " 0x" << std::setw(2) << std::right << byte;\n      if ((byte_number & 0xf) == 0xf) os << \'\\n\';\n      ++byte_number;\n    });', '    auto const* bytes = static_cast<unsigned char const*>(begin);\n    for (size_t byte_number = 0; byte_number < size; ++byte_number)\n    {\n      unsigned const byte = bytes[byte_number];\n      os << " 0x" << std::setw(2) << std::right << byte;\n      if ((byte_number & 0xf) == 0xf) os << \'\\n\';\n    }'), ["C18"], "printing"),
    ("B41-hexdump-lambda-int", M, lit("[&os, &byte_number](unsigned byte) {", "[&os, &byte_number](int byte) {"), ["C18"], "printing"),
    ("B43-forwarded-coroutine-list-by-value", CO, lit(FWD_OLD, fwd("std::shared_ptr<yield_expr_list<Sig>>")), ["C20", "C14"], "coro"),
    ("B42-trace-params-before-try", M, lit('    try\n    {\n      ta.trace_params(param_value);\n      i->run_actions(param_value, e.saturated);\n      return i->return_value(ta, param_value);\n    }', '    ta.trace_params(param_value);\n    try\n    {\n      i->run_actions(param_value, e.saturated);\n      return i->return_value(ta, param_value);\n    }'), ["C17", "C08", "C01"], "core"),
]


def run_variant(kind, v):
    if kind == "mutant":
        name, file, edit, checks, expect, corp = v
    else:
        name, file, edit, checks, corp = v
        expect = []
    d = tempfile.mkdtemp(prefix="selftest.", dir="/tmp")
    res = {"name": name, "kind": kind, "file": file, "checks": checks, "expect": expect}
    try:
        subprocess.run(["rsync", "-a", "--exclude", "_build", "--exclude", ".git", "/repo/", d + "/"], check=True)
        p = os.path.join(d, file)
        text = open(p).read()
        new = edit(text)
        if new == text and not name.startswith("B16"):
            res["status"] = "EDIT-DID-NOT-APPLY"
            return res
        open(p, "w").write(new)
        std = "c++20" if corp == "coro" else "c++17"
        cp = subprocess.run(["clang++", "-std=" + std, "-I" + d + "/include", "-fsyntax-only", "-w",
                             os.path.join(VERIF, "corpus", corp + ".cpp")], capture_output=True, text=True)
        res["compiles"] = cp.returncode == 0
        if cp.returncode != 0:
            res["status"] = "DOES-NOT-COMPILE" if kind == "benign" else "INVALID(does not compile)"
            res["err"] = cp.stderr[-300:]
            return res
        rules = set()
        exits = {}
        env = dict(os.environ, VERIF_REPO=d, VERIF_EVIDENCE_DIR=d + "/ev")
        for c in checks:
            r = subprocess.run([os.path.join(VERIF, "check"), c], cwd=VERIF, env=env, capture_output=True, text=True)
            exits[c] = r.returncode
            for line in r.stdout.split("\n"):
                m = re.search(r": (C\d\d[.a-zA-Z0-9]*): ", line)
                if m and not line.startswith("KNOWN"):
                    rules.add(m.group(1))
                if line.startswith("ANALYSIS-BROKEN"):
                    rules.add("BROKEN:" + line[:160])
        res["exits"] = exits
        res["rules"] = sorted(rules)
        if kind == "mutant":
            hit = [e for e in expect if any(r == e or r.startswith(e + ".") for r in rules)]
            res["status"] = "CAUGHT" if hit and any(x == 1 for x in exits.values()) else "MISSED"
        else:
            bad = [c for c, x in exits.items() if x == 1]
            res["status"] = "SILENT" if not bad and all(x == 0 for x in exits.values()) else \
                ("BROKEN(exit 2)" if not bad else "FALSE-ALARM")
        return res
    finally:
        shutil.rmtree(d, ignore_errors=True)


def main():
    flt = sys.argv[1] if len(sys.argv) > 1 else ""
    jobs = [("mutant", m) for m in MUTANTS if flt in m[0]] + [("benign", b) for b in BENIGN if flt in b[0]]
    with ThreadPoolExecutor(max_workers=int(os.environ.get("SELFTEST_JOBS", "6"))) as ex:
        results = list(ex.map(lambda kv: run_variant(*kv), jobs))
    for r in results:
        print("%-46s %-18s %s" % (r["name"], r["status"], " ".join(r.get("rules", []))[:150]))
    if not flt:
        with open(os.path.join(VERIF, "selftest", "RESULTS.json"), "w") as fh:
            json.dump({"results": results}, fh, indent=1)
    bad = [r for r in results if r["status"] not in ("CAUGHT", "SILENT", "INVALID(does not compile)")]
    print("%d variants, %d not as expected" % (len(results), len(bad)))
    return 1 if bad else 0


if __name__ == "__main__":
    sys.exit(main())
