"""Generator for C09's parametricity witness: for every arity 0..15 and each mock macro family a
mock function whose parameters are pairwise distinct opaque types in rotating passing modes, with
static_asserts on (i) the member's type, (ii) decltype(_k) inside every clause kind, (iii) _k beyond
the arity, (iv) the call-parameter tuple type.  Because the types are pairwise distinct and opaque,
any permutation, off-by-one or by-value binding fails to compile: one witness covers every value."""

MODES = ["{T}", "{T}&", "{T} const&", "{T}&&", "{T}*", "MO{K}"]


def ptype(k, n, shift=0):
    """parameter type of position k (1-based) in arity n"""
    m = MODES[(k + n + shift) % len(MODES)]
    return m.replace("{T}", "P%d" % k).replace("{K}", str(k))


def alias_type(pt):
    """decltype(_k) for a parameter declared as pt: reference to remove_reference_t<pt>"""
    core = pt
    if core.endswith("&&"):
        core = core[:-2]
    elif core.endswith("&"):
        core = core[:-1]
    return core.strip() + "&"


HEADER = """#include <trompeloeil.hpp>
#include <type_traits>
#include <tuple>
#include <functional>
using trompeloeil::_;
template <class A, class B> constexpr bool same() { static_assert(std::is_same<A, B>::value, "C09: _N must be a reference to the caller's N:th argument"); return true; }
"""


def types_decl():
    out = []
    for k in range(1, 16):
        out.append("struct P%d { int v; };" % k)
        out.append("struct MO%d { MO%d() = default; MO%d(MO%d&&) = default; MO%d(MO%d const&) = delete; int v; };"
                   % (k, k, k, k, k, k))
    return "\n".join(out) + "\n"


def checks(n, pts):
    cs = []
    for k in range(1, 16):
        if k <= n:
            cs.append("same<decltype(_%d), %s>()" % (k, alias_type(pts[k - 1])))
        else:
            cs.append("same<decltype(_%d), trompeloeil::illegal_argument&&>()" % k)
    return " && ".join(cs)


def program(arities, families=("MAKE_MOCK", "MAKE_CONST_MOCK", "IMPLEMENT_MOCK", "IMPLEMENT_CONST_MOCK"),
            lr=True, coroutine=False):
    lines = [HEADER, types_decl()]
    n_asserts = 0
    for n in arities:
        for fi, fam in enumerate(families):
            pts = [ptype(k, n, fi) for k in range(1, n + 1)]
            sig = "int(%s)" % ", ".join(pts)
            const = "CONST" in fam
            ns = "a%d_%d" % (n, fi)
            lines.append("namespace %s {" % ns)
            if fam.startswith("IMPLEMENT"):
                lines.append("struct I { virtual ~I() = default; virtual int f(%s) %s= 0; };"
                             % (", ".join(pts), "const " if const else ""))
                lines.append("struct M : trompeloeil::mock_interface<I> {")
                lines.append("  %s%d(f);" % (fam, n))
                lines.append("};")
            else:
                lines.append("struct M {")
                lines.append("  %s%d(f, %s);" % (fam, n, sig))
                lines.append("};")
            lines.append("static_assert(std::is_same<decltype(&M::f), int (M::*)(%s)%s>::value, \"member type\");"
                         % (", ".join(pts), " const" if const else ""))
            refs = ", ".join("std::reference_wrapper<std::remove_reference_t<%s>>" % p for p in pts)
            lines.append("static_assert(std::is_same<trompeloeil::call_params_type_t<%s>, std::tuple<%s>>::value, \"tuple\");"
                         % (sig, refs))
            n_asserts += 2
            ck = checks(n, pts)
            wild = ", ".join(["_"] * n)
            lines.append("inline void t() {")
            lines.append("  %sM m; int local = 0; (void)local;" % ("const " if const else ""))
            lines.append("  REQUIRE_CALL(m, f(%s))" % wild)
            lines.append("    .WITH(%s)" % ck)
            lines.append("    .SIDE_EFFECT((void)(%s))" % ck)
            lines.append("    .RETURN(((void)(%s), 0));" % ck)
            lines.append("  REQUIRE_CALL(m, f(%s))" % wild)
            lines.append("    .THROW(((void)(%s), 0));" % ck)
            n_asserts += 15 * 4
            if lr:
                lines.append("  REQUIRE_CALL(m, f(%s))" % wild)
                lines.append("    .LR_WITH(%s)" % ck)
                lines.append("    .LR_SIDE_EFFECT((void)(%s))" % ck)
                lines.append("    .LR_RETURN(((void)(%s), 0));" % ck)
                lines.append("  REQUIRE_CALL(m, f(%s))" % wild)
                lines.append("    .LR_THROW(((void)(%s), local));" % ck)
                n_asserts += 15 * 4
            lines.append("}")
            lines.append("}")
    lines.append("int main() {}")
    return "\n".join(lines) + "\n", n_asserts


def negative_program():
    """controls: each line must FAIL to compile (the witness is able to reject a wrong wiring)"""
    src = HEADER + types_decl() + """
struct M { MAKE_MOCK2(f, int(P1, P2&)); };
inline void t() {
  M m;
  REQUIRE_CALL(m, f(_, _)).WITH(same<decltype(_1), P2&>()).RETURN(0);
  REQUIRE_CALL(m, f(_, _)).WITH(same<decltype(_2), P2>()).RETURN(0);
  REQUIRE_CALL(m, f(_, _)).WITH(same<decltype(_3), P1&>()).RETURN(0);
}
int main() {}
"""
    return src
