"""Generators for C19's compile-pass and compile-fail witness programs.

A *chain* is a tuple of clause tokens.  Legal chains over a signature kind are
all permutations of all subsets of the optional clauses {WITH, SIDE_EFFECT,
TIMES|RT_TIMES, IN_SEQUENCE} together with the finisher the signature needs
(RETURN or THROW for value/reference signatures; nothing or THROW for void).
Illegal chains are legal chains with one illegal ingredient inserted at one
position; each carries the documented diagnostic it must produce.
"""
import itertools
import re

CLAUSE = {
    "W": ".WITH(_1 > 0)",
    "LW": ".LR_WITH(_1 > g)",
    "S": ".SIDE_EFFECT(g = _1)",
    "LS": ".LR_SIDE_EFFECT(g = _1)",
    "T": ".TIMES(2)",
    "T13": ".TIMES(1, 3)",
    "TAL": ".TIMES(AT_LEAST(1))",
    "TAM": ".TIMES(AT_MOST(2))",
    "T0": ".TIMES(0)",
    "T02": ".TIMES(0, 2)",
    "TAL0": ".TIMES(AT_LEAST(0))",
    "RT02": ".RT_TIMES(0, 2)",
    "RTAM": ".RT_TIMES(AT_MOST(2))",
    "TINV": ".TIMES(3, 2)",
    "RT": ".RT_TIMES(2)",
    "Q": ".IN_SEQUENCE(s)",
    "Q2": ".IN_SEQUENCE(s, s2)",
    "TH": ".THROW(1)",
    "RET0": ".RETURN()",
    "LRET0": ".LR_RETURN()",
    "LTH": ".LR_THROW(g)",
}
RETURN = {"I": ".RETURN(_1)", "R": ".RETURN(_1)", "V": ".RETURN(1)"}
LRETURN = {"I": ".LR_RETURN(g)", "R": ".LR_RETURN(_1)", "V": ".LR_RETURN(g)"}

SIG = {
    "V": ("void(int)", "1"),
    "I": ("int(int)", "1"),
    "R": ("int&(int&)", "g"),
}


def clause_text(tok, sig):
    if tok == "RET":
        return RETURN[sig]
    if tok == "LRET":
        return LRETURN[sig]
    return CLAUSE[tok]


def legal_chains(sig, max_optional=4):
    """All legal clause orders for signature kind `sig`."""
    opts_base = ["W", "S", "Q"]
    finishers = {"V": [None, "TH"], "I": ["RET", "TH"], "R": ["RET", "TH"]}[sig]
    out = []
    for times in (None, "T", "RT"):
        opts = opts_base + ([times] if times else [])
        for k in range(0, min(len(opts), max_optional) + 1):
            for sub in itertools.combinations(opts, k):
                if times and times not in sub:
                    continue
                for fin in finishers:
                    items = list(sub) + ([fin] if fin else [])
                    for perm in itertools.permutations(items):
                        out.append(tuple(perm))
    # de-duplicate, keep order
    seen = set()
    res = []
    for c in out:
        if c not in seen:
            seen.add(c)
            res.append(c)
    return res


def extra_positive(sig):
    """Spelling variants outside the permutation matrix."""
    fin = [] if sig == "V" else ["RET"]
    lfin = [] if sig == "V" else ["LRET"]
    cs = [
        ("REQUIRE_CALL", tuple(["LW", "LS"] + lfin)),
        ("REQUIRE_CALL", tuple(["T13"] + fin)),
        ("REQUIRE_CALL", tuple(["TAL"] + fin)),
        ("REQUIRE_CALL", tuple(["TAM"] + fin)),
        ("REQUIRE_CALL", tuple(["Q2"] + fin)),
        ("REQUIRE_CALL", ("LTH",)),
        ("REQUIRE_CALL", ("T0",)),
        ("FORBID_CALL", ()),
        ("FORBID_CALL", ("W",)),
        ("FORBID_CALL", ("LW", "W")),
    ]
    for perm in itertools.permutations(["W", "S", "Q"] + fin):
        cs.append(("ALLOW_CALL", tuple(perm)))
    # every spelling of a call-count limit, at every position relative to the clauses that are illegal only with
    # TIMES(0): a lower bound of 0 with a non-zero upper bound (AT_MOST, (0, n)) is NOT TIMES(0)
    fins = [[], ["TH"]] if sig == "V" else [["RET"], ["TH"], ["LRET"]]
    for tok in ("TAM", "T02", "TAL0", "T13", "TAL", "RT02", "RTAM"):
        for f in fins:
            for perm in itertools.permutations([tok, "S", "Q"] + f):
                cs.append(("REQUIRE_CALL", tuple(perm)))
    return cs


# illegal ingredient -> function(chain, sig) giving list of (position, expected-regex) or []
def illegal_insertions(chain, sig):
    """Yield (new_chain, expected_regex, what) for every single illegal insertion."""
    has = set(chain)
    n = len(chain)

    def ins(pos, tok):
        return chain[:pos] + (tok,) + chain[pos:]

    for pos in range(n + 1):
        before = set(chain[:pos])
        # second RETURN / RETURN on void / RETURN+THROW
        if sig == "V":
            if "TH" not in has:
                yield ins(pos, "RET"), r"RETURN does not make sense for void-function", "RETURN on void"
                yield ins(pos, "RET0"), r"RETURN does not make sense for void-function", "empty RETURN on void"
                yield ins(pos, "LRET0"), r"RETURN does not make sense for void-function", "empty LR_RETURN on void"
        else:
            if "RET" in has:
                yield ins(pos, "RET"), r"Multiple RETURN does not make sense", "second RETURN"
                yield ins(pos, "TH"), r"THROW and RETURN does not make sense", "THROW with RETURN"
            if "TH" in has:
                yield ins(pos, "RET"), r"THROW and RETURN does not make sense", "RETURN with THROW"
        if "TH" in has:
            yield ins(pos, "TH"), r"Multiple THROW does not make sense", "second THROW"
        # call limits
        if "T" in has:
            yield ins(pos, "T13"), r"Only one TIMES call limit is allowed", "second TIMES"
            second = "RT" if "T" in before else "T"
            msg = (r"Only one RT_TIMES call limit is allowed" if "T" in before
                   else r"Only one TIMES call limit is allowed")
            yield ins(pos, "RT"), msg, "RT_TIMES with TIMES (%s complains)" % second
        if "RT" in has:
            yield ins(pos, "RT"), r"Only one RT_TIMES call limit is allowed", "second RT_TIMES"
            msg = (r"Only one TIMES call limit is allowed" if "RT" in before
                   else r"Only one RT_TIMES call limit is allowed")
            yield ins(pos, "T"), msg, "TIMES with RT_TIMES"
        if "T" not in has and "RT" not in has:
            yield ins(pos, "TINV"), r"In TIMES the first value must not exceed the second", "inverted bounds"
            # TIMES(0) combined with actions / sequence
            after = set(chain[pos:])
            msgs = []
            for tok, name in (("RET", "RETURN"), ("TH", "THROW"), ("S", "SIDE_EFFECT"), ("Q", "IN_SEQUENCE")):
                if tok in before:
                    msgs.append(name + r" and TIMES\(0\) does not make sense")
                if tok in after:
                    msgs.append(name + r" for forbidden call does not make sense")
            if msgs:
                yield ins(pos, "T0"), "|".join(msgs), "TIMES(0) with actions"
            # a second limit after / before a TIMES(0) is still a second limit
            two = lambda a, b: chain[:pos] + (a, b) + chain[pos:]
            only_t = r"Only one TIMES call limit is allowed"
            only_rt = r"Only one RT_TIMES call limit is allowed"
            if not msgs:
                yield two("T0", "T13"), only_t, "TIMES after TIMES(0)"
                yield two("T0", "RT"), only_rt, "RT_TIMES after TIMES(0)"
                yield two("T13", "T0"), only_t, "TIMES(0) after TIMES"
        # sequences
        if "Q" in has:
            yield ins(pos, "Q"), r"Multiple IN_SEQUENCE does not make sense", "second IN_SEQUENCE"
    # missing RETURN
    if sig != "V" and "RET" in has:
        c = tuple(t for t in chain if t != "RET")
        yield c, r"RETURN missing for non-void function", "missing RETURN"


def forbid_negatives(sig):
    """FORBID_CALL followed by any action."""
    out = []
    toks = [("S", "SIDE_EFFECT"), ("TH", "THROW"), ("Q", "IN_SEQUENCE")]
    if sig != "V":
        toks.append(("RET", "RETURN"))
    for tok, name in toks:
        for pre in ((), ("W",)):
            out.append(("FORBID_CALL", pre + (tok,), name + r" for forbidden call does not make sense",
                        name + " on FORBID_CALL"))
    for pre in ((), ("W",)):
        out.append(("FORBID_CALL", pre + ("T",), r"Only one TIMES call limit is allowed", "TIMES on FORBID_CALL"))
        out.append(("FORBID_CALL", pre + ("TAL",), r"Only one TIMES call limit is allowed", "TIMES(AT_LEAST) on FORBID_CALL"))
        out.append(("FORBID_CALL", pre + ("RT",), r"Only one RT_TIMES call limit is allowed", "RT_TIMES on FORBID_CALL"))
        out.append(("ALLOW_CALL", pre + ("T",) + (() if sig == "V" else ("RET",)),
                    r"Only one TIMES call limit is allowed", "TIMES on ALLOW_CALL"))
    return out


HEADER = """#include <trompeloeil.hpp>
static int g;
"""


class Program:
    """One generated TU: each case on its own line, in its own function, with its own mock type."""

    def __init__(self, tag):
        self.tag = tag
        self.lines = HEADER.rstrip("\n").split("\n")
        self.cases = {}  # line number -> case dict

    def add(self, macro, chain, sig, expect=None, what=""):
        sigtxt, arg = SIG[sig]
        n = len(self.lines) + 1
        text = ("namespace c%d { struct M { MAKE_MOCK1(f, %s); }; inline void t() { M m; "
                "trompeloeil::sequence s, s2; %s(m, f(%s))%s; } }"
                % (n, sigtxt, macro, "trompeloeil::_" if sig == "R" else "1",
                   "".join(clause_text(t, sig) for t in chain)))
        self.lines.append(text)
        self.cases[n] = {"line": n, "macro": macro, "sig": sig, "chain": list(chain),
                         "expect": expect, "what": what, "text": text}

    def add_raw(self, text, expect, what):
        n = len(self.lines) + 1
        self.lines.append(text.replace("@N@", str(n)))
        self.cases[n] = {"line": n, "macro": "raw", "sig": "-", "chain": [], "expect": expect,
                         "what": what, "text": text}

    def source(self):
        return "\n".join(self.lines) + "\n"


def arity_negatives(prog):
    """MAKE_MOCKn with every wrong n for signatures of arity 0..3 (and const / override forms)."""
    sigs = {0: "void()", 1: "void(int)", 2: "void(int, long)", 3: "void(int, long, char)"}
    for arity, s in sigs.items():
        for n in range(0, 6):
            if n == arity:
                continue
            for macro in ("MAKE_MOCK", "MAKE_CONST_MOCK"):
                prog.add_raw("namespace c@N@ { struct M { %s%d(f, %s); }; }" % (macro, n, s),
                             r"Function signature does not have %d parameters" % n,
                             "%s%d on arity %d" % (macro, n, arity))


def diag_blocks(output):
    """Split compiler output into diagnostic blocks: [g++ context lines] error line [notes]."""
    blocks = []
    pending = []
    cur = None
    ctx_re = re.compile(r"In instantiation of|required from|required by|In substitution of|"
                        r"In function|In member function|In static member function|"
                        r"In file included from|^\s+from |recursively required|In constructor|"
                        r"In lambda function|At global scope|In destructor")
    for line in output.split("\n"):
        if ": error:" in line or ": fatal error:" in line:
            if cur is not None:
                blocks.append(cur)
            cur = pending + [line]
            pending = []
        elif ": note:" in line or ": warning:" in line:
            if cur is not None:
                cur.append(line)
        elif ctx_re.search(line):
            if cur is not None:
                blocks.append(cur)
                cur = None
            pending.append(line)
        else:
            if cur is not None:
                cur.append(line)
    if cur is not None:
        blocks.append(cur)
    return blocks


def attribute(blocks, src_name):
    """line number of the generated source -> list of block texts that mention it."""
    rx = re.compile(re.escape(src_name) + r":(\d+)[:,]")
    by_line = {}
    for b in blocks:
        text = "\n".join(b)
        for ln in set(int(m) for m in rx.findall(text)):
            by_line.setdefault(ln, []).append(text)
    return by_line
