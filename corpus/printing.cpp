// Instantiation driver for value printing (never executed, only parsed).
#include <trompeloeil.hpp>
#include <array>
#include <list>
#include <map>
#include <memory>
#include <set>
#include <sstream>
#include <string>
#include <tuple>
#include <vector>

namespace corpus {

struct Opaque { int a; char b[12]; };
struct Streamable { int v; };
inline std::ostream& operator<<(std::ostream& os, Streamable const& s) { return os << s.v; }
struct Custom { int v; };
struct NullCmp { bool operator==(std::nullptr_t) const { return false; } };
inline std::ostream& operator<<(std::ostream& os, NullCmp const&) { return os << "nc"; }

} // namespace corpus

namespace trompeloeil {
template <>
struct printer<corpus::Custom> {
  static void print(std::ostream& os, corpus::Custom const& c) { os << "custom " << c.v; }
};
}

namespace corpus {

void all(std::ostream& os) {
  int i = 1;
  int* pi = &i;
  int* null = nullptr;
  char const* cs = "x";
  char const* ncs = nullptr;
  std::string s = "s";
  std::unique_ptr<int> up;
  std::shared_ptr<int> sp;
  std::pair<int, std::string> pr{1, "a"};
  std::tuple<int, std::string, double> tp{1, "a", 2.0};
  std::tuple<> et;
  std::vector<int> v{1, 2};
  std::vector<std::vector<int>> vv{{1}, {2}};
  std::map<int, std::string> m{{1, "a"}};
  std::set<int> st{1};
  std::vector<std::pair<int, char const*>> vp{{1, nullptr}};
  std::tuple<int*, std::vector<char const*>> nested{nullptr, {nullptr}};
  int arr[3] = {1, 2, 3};
  int arr2[2][3] = {{1, 2, 3}, {4, 5, 6}};
  char const* parr2[2][2] = {{nullptr, "a"}, {"b", nullptr}};
  std::array<int[2], 2> sarr{};
  std::list<std::vector<char const*>> lv;
  Opaque o{};
  Streamable sm{1};
  Custom c{1};
  NullCmp nc;
  trompeloeil::print(os, i);
  trompeloeil::print(os, pi);
  trompeloeil::print(os, null);
  trompeloeil::print(os, cs);
  trompeloeil::print(os, ncs);
  trompeloeil::print(os, s);
  trompeloeil::print(os, up);
  trompeloeil::print(os, sp);
  trompeloeil::print(os, nullptr);
  trompeloeil::print(os, pr);
  trompeloeil::print(os, tp);
  trompeloeil::print(os, et);
  trompeloeil::print(os, v);
  trompeloeil::print(os, vv);
  trompeloeil::print(os, m);
  trompeloeil::print(os, st);
  trompeloeil::print(os, vp);
  trompeloeil::print(os, nested);
  trompeloeil::print(os, arr);
  trompeloeil::print(os, arr2);
  trompeloeil::print(os, parr2);
  trompeloeil::print(os, sarr);
  trompeloeil::print(os, lv);
  trompeloeil::print(os, o);
  trompeloeil::print(os, sm);
  trompeloeil::print(os, c);
  trompeloeil::print(os, nc);
  trompeloeil::print(os, std::ref(i));
  // how the arguments of a mock call arrive: reference_wrapper of the (possibly const) parameter type
  trompeloeil::print(os, std::cref(pr));
  trompeloeil::print(os, std::cref(tp));
  trompeloeil::print(os, std::cref(c));
  trompeloeil::print(os, std::cref(v));
  trompeloeil::print(os, 'c');
  trompeloeil::print(os, 1.5);
  trompeloeil::print(os, true);
}

struct Mock {
  MAKE_MOCK3(f, void(int*, std::vector<std::pair<int, char const*>> const&, Opaque));
};

void in_report() {
  Mock m;
  REQUIRE_CALL(m, f(nullptr, trompeloeil::_, trompeloeil::_));
  m.f(nullptr, {}, Opaque{});
}

} // namespace corpus

int main() {}
