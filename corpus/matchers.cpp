// Instantiation driver for the matcher headers (never executed, only parsed).
#include <trompeloeil.hpp>
#include <array>
#include <deque>
#include <list>
#include <memory>
#include <string>
#include <vector>

namespace corpus {

using trompeloeil::_;
using trompeloeil::param_matches;

struct S {
  int m;
  std::string name;
};

// A user pointer type that is comparable with nullptr only through its converting constructor: `p != nullptr` is
// well-formed, but trompeloeil::is_null_comparable (which compares with a helper type that converts to nullptr_t)
// is false for it.  The dereferencing matcher must treat it like any other nullable pointer.
template <typename T>
class conv_ptr {
public:
  conv_ptr(std::nullptr_t) noexcept : p_(nullptr) {}
  explicit conv_ptr(T* p) noexcept : p_(p) {}
  T& operator*() const { return *p_; }
  friend bool operator==(const conv_ptr& a, const conv_ptr& b) noexcept { return a.p_ == b.p_; }
  friend bool operator!=(const conv_ptr& a, const conv_ptr& b) noexcept { return a.p_ != b.p_; }
private:
  T* p_;
};
static_assert(!trompeloeil::is_null_comparable<conv_ptr<int>>::value, "premise of the conv_ptr instantiations");

struct Mock {
  MAKE_MOCK1(i, void(int));
  MAKE_MOCK1(cp, void(conv_ptr<int> const&));
  MAKE_MOCK1(p, void(int*));
  MAKE_MOCK1(s, void(std::string const&));
  MAKE_MOCK1(cs, void(char const*));
  MAKE_MOCK1(v, void(std::vector<int> const&));
  MAKE_MOCK1(st, void(S const&));
  MAKE_MOCK1(up, void(std::unique_ptr<int> const&));
};

bool scalars(int x, int* px, std::unique_ptr<int>& up) {
  using namespace trompeloeil;
  bool r = true;
  r &= param_matches(eq(1), std::ref(x));
  r &= param_matches(ne(1), std::ref(x));
  r &= param_matches(lt(1), std::ref(x));
  r &= param_matches(le(1), std::ref(x));
  r &= param_matches(gt(1), std::ref(x));
  r &= param_matches(ge(1), std::ref(x));
  r &= param_matches(eq<int>(1), std::ref(x));
  r &= param_matches(ne<int>(1), std::ref(x));
  r &= param_matches(lt<int>(1), std::ref(x));
  r &= param_matches(le<int>(1), std::ref(x));
  r &= param_matches(gt<int>(1), std::ref(x));
  r &= param_matches(ge<int>(1), std::ref(x));
  r &= param_matches(_, std::ref(x));
  r &= param_matches(ANY(int), std::ref(x));
  r &= param_matches(!eq(1), std::ref(x));
  r &= param_matches(!!eq(1), std::ref(x));
  r &= param_matches(*eq(1), std::ref(px));
  r &= param_matches(*eq(1), std::ref(up));
  conv_ptr<int> cp(px);
  r &= param_matches(*eq(1), std::ref(cp));
  r &= param_matches(!*eq(1), std::ref(px));
  r &= param_matches(*!eq(1), std::ref(px));
  r &= param_matches(any_of(1), std::ref(x));
  r &= param_matches(any_of(1, 2), std::ref(x));
  r &= param_matches(any_of(1, gt(2), lt(0)), std::ref(x));
  r &= param_matches(all_of(gt(1)), std::ref(x));
  r &= param_matches(all_of(gt(1), lt(5)), std::ref(x));
  r &= param_matches(all_of(gt(1), lt(5), ne(3)), std::ref(x));
  r &= param_matches(none_of(1), std::ref(x));
  r &= param_matches(none_of(1, 2), std::ref(x));
  r &= param_matches(none_of(1, gt(7), lt(0)), std::ref(x));
  r &= param_matches(any_of<int>(1, 2), std::ref(x));
  r &= param_matches(1, std::ref(x));
  r &= param_matches(eq(nullptr), std::ref(px));
  r &= param_matches(ne(nullptr), std::ref(px));
  return r;
}

bool strings(std::string const& s, char const* cs, std::string* ps, S const& st) {
  using namespace trompeloeil;
  bool r = true;
  r &= param_matches(re("a.c"), std::ref(s));
  r &= param_matches(re("a.c"), std::ref(cs));
  r &= param_matches(re("a.c", std::regex_constants::icase), std::ref(s));
  r &= param_matches(re("a.c", std::regex_constants::match_not_bol), std::ref(cs));
  r &= param_matches(re("a.c", std::regex_constants::icase, std::regex_constants::match_not_bol), std::ref(s));
  r &= param_matches(re<std::string const&>("a.c"), std::ref(s));
  r &= param_matches(re<char const*>("a.c"), std::ref(cs));
  r &= param_matches(*re("a.c"), std::ref(ps));
  r &= param_matches(!re("a.c"), std::ref(s));
  r &= param_matches(eq("abc"), std::ref(s));
  r &= param_matches(MEMBER_IS(&S::m, 3), std::ref(st));
  r &= param_matches(MEMBER_IS(&S::m, gt(3)), std::ref(st));
  r &= param_matches(MEMBER_IS(&S::name, re("x")), std::ref(st));
  r &= param_matches(!MEMBER_IS(&S::m, 3), std::ref(st));
  return r;
}

bool ranges(std::vector<int> const& v, std::list<int> const& l, std::deque<int> const& d, int (&arr)[3],
            std::array<int, 3> const& a) {
  using namespace trompeloeil;
  bool r = true;
  int carr[] = {1, 2, 3};
  std::vector<int> vals{1, 2, 3};
  r &= param_matches(range_is(1, 2, 3), std::ref(v));
  r &= param_matches(range_is(1, gt(1), _), std::ref(v));
  r &= param_matches(range_is(vals), std::ref(v));
  r &= param_matches(range_is(carr), std::ref(v));
  r &= param_matches(range_is(1, 2, 3), std::ref(l));
  r &= param_matches(range_is(vals), std::ref(arr));
  r &= param_matches(range_is_permutation(1, 2, 3), std::ref(v));
  r &= param_matches(range_is_permutation(1, gt(1), _), std::ref(v));
  r &= param_matches(range_is_permutation(vals), std::ref(v));
  r &= param_matches(range_is_permutation(carr), std::ref(l));
  r &= param_matches(range_includes(1, 2), std::ref(v));
  r &= param_matches(range_includes(1, gt(1)), std::ref(d));
  r &= param_matches(range_includes(vals), std::ref(v));
  r &= param_matches(range_includes(carr), std::ref(a));
  r &= param_matches(range_starts_with(1, 2), std::ref(v));
  r &= param_matches(range_starts_with(1, gt(1)), std::ref(l));
  r &= param_matches(range_starts_with(vals), std::ref(v));
  r &= param_matches(range_starts_with(carr), std::ref(d));
  r &= param_matches(range_ends_with(2, 3), std::ref(v));
  r &= param_matches(range_ends_with(2, gt(1)), std::ref(l));
  r &= param_matches(range_ends_with(vals), std::ref(v));
  r &= param_matches(range_ends_with(carr), std::ref(arr));
  r &= param_matches(range_all_of(gt(0)), std::ref(v));
  r &= param_matches(range_all_of(1), std::ref(l));
  r &= param_matches(range_any_of(gt(0)), std::ref(v));
  r &= param_matches(range_any_of(1), std::ref(a));
  r &= param_matches(range_none_of(gt(0)), std::ref(v));
  r &= param_matches(range_none_of(1), std::ref(d));
  r &= param_matches(!range_is(1, 2, 3), std::ref(v));
  r &= param_matches(range_all_of(any_of(1, 2)), std::ref(v));
  r &= param_matches(range_is<std::vector<int> const&>(1, 2, 3), std::ref(v));
  return r;
}

// combinators applied to NAMED matchers (lvalues): the operand must be copied, the original stays usable
bool named_operands() {
  using namespace trompeloeil;
  auto is_foo = eq(std::string("foo"));
  auto is_three = eq(3);
  auto not_foo = !is_foo;
  auto not_three = !is_three;
  auto deref_three = *is_three;
  auto either = any_of(is_foo, std::string("bar"));
  auto both = all_of(is_three, gt(2));
  auto neither = none_of(is_three, lt(0));
  std::string sv("foo");
  int iv = 3;
  int* pv = &iv;
  bool r = param_matches(is_foo, std::ref(sv)) && param_matches(not_foo, std::ref(sv));
  r &= param_matches(not_three, std::ref(iv)) && param_matches(deref_three, std::ref(pv));
  r &= param_matches(either, std::ref(sv)) && param_matches(both, std::ref(iv)) && param_matches(neither, std::ref(iv));
  return r;
}

void in_mocks() {
  using namespace trompeloeil;
  Mock m;
  REQUIRE_CALL(m, i(gt(3)));
  REQUIRE_CALL(m, i(any_of(1, 2)));
  REQUIRE_CALL(m, p(*eq(3)));
  REQUIRE_CALL(m, p(nullptr));
  REQUIRE_CALL(m, s(re("x")));
  REQUIRE_CALL(m, cs(re("x")));
  REQUIRE_CALL(m, v(range_is(1, 2)));
  REQUIRE_CALL(m, v(range_includes(1)));
  REQUIRE_CALL(m, st(MEMBER_IS(&S::m, 1)));
  REQUIRE_CALL(m, up(*gt(1)));
  int x = 1;
  m.i(4);
  m.p(&x);
  m.s("x");
  m.cs("x");
  m.v({1, 2});
  m.st(S{1, "n"});
}

} // namespace corpus

int main() {}
