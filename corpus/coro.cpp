// Instantiation driver for mocked coroutines (C++20; never executed, only parsed).
#include <trompeloeil.hpp>
#include <trompeloeil/coro.hpp>
#include <coroutine>
#include <exception>
#include <iterator>
#include <optional>
#include <string>
#include <utility>

namespace cor {

// ---- a task type, eagerly or lazily started, awaitable
template <typename T, bool Lazy>
struct task {
  struct promise_type {
    std::optional<T> value;
    std::exception_ptr exc;
    task get_return_object() { return task{std::coroutine_handle<promise_type>::from_promise(*this)}; }
    auto initial_suspend() noexcept {
      struct aw {
        bool await_ready() const noexcept { return !Lazy; }
        void await_suspend(std::coroutine_handle<>) const noexcept {}
        void await_resume() const noexcept {}
      };
      return aw{};
    }
    std::suspend_always final_suspend() noexcept { return {}; }
    void return_value(T v) { value = std::move(v); }
    std::suspend_always yield_value(T v) { value = std::move(v); return {}; }
    void unhandled_exception() { exc = std::current_exception(); }
  };
  explicit task(std::coroutine_handle<promise_type> h_) : h(h_) {}
  task(task&& r) noexcept : h(std::exchange(r.h, {})) {}
  ~task() { if (h) h.destroy(); }
  bool await_ready() const noexcept { return false; }
  void await_suspend(std::coroutine_handle<>) { if (!h.done()) h.resume(); }
  T await_resume() {
    if (h.promise().exc) std::rethrow_exception(h.promise().exc);
    return std::move(*h.promise().value);
  }
  std::coroutine_handle<promise_type> h;
};

template <bool Lazy>
struct task<void, Lazy> {
  struct promise_type {
    std::exception_ptr exc;
    task get_return_object() { return task{std::coroutine_handle<promise_type>::from_promise(*this)}; }
    auto initial_suspend() noexcept {
      struct aw {
        bool await_ready() const noexcept { return !Lazy; }
        void await_suspend(std::coroutine_handle<>) const noexcept {}
        void await_resume() const noexcept {}
      };
      return aw{};
    }
    std::suspend_always final_suspend() noexcept { return {}; }
    void return_void() {}
    void unhandled_exception() { exc = std::current_exception(); }
  };
  explicit task(std::coroutine_handle<promise_type> h_) : h(h_) {}
  task(task&& r) noexcept : h(std::exchange(r.h, {})) {}
  ~task() { if (h) h.destroy(); }
  bool await_ready() const noexcept { return false; }
  void await_suspend(std::coroutine_handle<>) { if (!h.done()) h.resume(); }
  void await_resume() { if (h.promise().exc) std::rethrow_exception(h.promise().exc); }
  std::coroutine_handle<promise_type> h;
};

// ---- a task awaited through operator co_await
template <typename T>
struct op_task {
  using inner = task<T, true>;
  struct promise_type : inner::promise_type {
    op_task get_return_object() {
      return op_task{std::coroutine_handle<promise_type>::from_promise(*this)};
    }
  };
  explicit op_task(std::coroutine_handle<promise_type> h_) : h(h_) {}
  op_task(op_task&& r) noexcept : h(std::exchange(r.h, {})) {}
  ~op_task() { if (h) h.destroy(); }
  struct awaiter {
    std::coroutine_handle<promise_type> h;
    bool await_ready() const noexcept { return false; }
    void await_suspend(std::coroutine_handle<>) { if (!h.done()) h.resume(); }
    T await_resume() { return std::move(*h.promise().value); }
  };
  awaiter operator co_await() { return awaiter{h}; }
  std::coroutine_handle<promise_type> h;
};

// ---- a generator: a range, not awaitable
template <typename T>
struct generator {
  struct promise_type {
    std::optional<T> value;
    generator get_return_object() { return generator{std::coroutine_handle<promise_type>::from_promise(*this)}; }
    std::suspend_always initial_suspend() noexcept { return {}; }
    std::suspend_always final_suspend() noexcept { return {}; }
    std::suspend_always yield_value(T v) { value = std::move(v); return {}; }
    void return_void() {}
    void unhandled_exception() { throw; }
  };
  struct sentinel {};
  struct iterator {
    using value_type = T;
    using difference_type = std::ptrdiff_t;
    std::coroutine_handle<promise_type> h;
    iterator& operator++() { h.resume(); return *this; }
    void operator++(int) { h.resume(); }
    T const& operator*() const { return *h.promise().value; }
    bool operator==(sentinel) const { return h.done(); }
  };
  explicit generator(std::coroutine_handle<promise_type> h_) : h(h_) {}
  generator(generator&& r) noexcept : h(std::exchange(r.h, {})) {}
  ~generator() { if (h) h.destroy(); }
  iterator begin() { h.resume(); return iterator{h}; }
  sentinel end() { return {}; }
  std::coroutine_handle<promise_type> h;
};

// ---- generators whose promise takes the yielded value through an OVERLOADED / a TEMPLATED yield_value (cppcoro,
// std::generator style): `&promise_type::yield_value` is ill-formed for them, `p.yield_value(v)` is not
template <typename T, bool Templ>
struct gen2 {
  struct promise_type {
    std::optional<T> value;
    gen2 get_return_object() { return gen2{std::coroutine_handle<promise_type>::from_promise(*this)}; }
    std::suspend_always initial_suspend() noexcept { return {}; }
    std::suspend_always final_suspend() noexcept { return {}; }
    template <bool B = Templ, typename = std::enable_if_t<!B>>
    std::suspend_always yield_value(T const& v, int = 0) { value = v; return {}; }
    template <bool B = Templ, typename = std::enable_if_t<!B>>
    std::suspend_always yield_value(T&& v, long = 0) { value = std::move(v); return {}; }
    template <typename From, bool B = Templ, typename = std::enable_if_t<B && std::is_convertible<From, T>::value>>
    std::suspend_always yield_value(From&& v) { value = std::forward<From>(v); return {}; }
    void return_void() {}
    void unhandled_exception() { throw; }
  };
  struct sentinel {};
  struct iterator {
    using value_type = T;
    using difference_type = std::ptrdiff_t;
    std::coroutine_handle<promise_type> h;
    iterator& operator++() { h.resume(); return *this; }
    void operator++(int) { h.resume(); }
    T const& operator*() const { return *h.promise().value; }
    bool operator==(sentinel) const { return h.done(); }
  };
  iterator begin() { h.resume(); return iterator{h}; }
  sentinel end() { return {}; }
  explicit gen2(std::coroutine_handle<promise_type> h_) : h(h_) {}
  gen2(gen2&& r) noexcept : h(std::exchange(r.h, {})) {}
  ~gen2() { if (h) h.destroy(); }
  std::coroutine_handle<promise_type> h;
};

using eager_int = task<int, false>;
using lazy_int = task<int, true>;
using eager_void = task<void, false>;
using ovl_generator = gen2<int, false>;
using tmpl_generator = gen2<int, true>;
using lazy_void = task<void, true>;

struct Mock {
  MAKE_MOCK1(ei, eager_int(int));
  MAKE_MOCK1(li, lazy_int(int));
  MAKE_MOCK0(ev, eager_void());
  MAKE_MOCK0(lv, lazy_void());
  MAKE_MOCK1(oi, op_task<int>(int));
  MAKE_MOCK1(gen, generator<int>(int));
  MAKE_MOCK1(ogen, ovl_generator(int));
  MAKE_MOCK1(tgen, tmpl_generator(int));
  MAKE_MOCK1(str, lazy_int(std::string));
};

int glob;

void drive() {
  Mock m;
  int local = 2;
  trompeloeil::sequence s;
  REQUIRE_CALL(m, ei(1)).CO_RETURN(_1 + 1);
  REQUIRE_CALL(m, li(1)).LR_CO_RETURN(local);
  REQUIRE_CALL(m, ev()).CO_RETURN();
  REQUIRE_CALL(m, lv()).SIDE_EFFECT(glob = 1).CO_RETURN();
  REQUIRE_CALL(m, ei(2)).CO_THROW(std::string("x"));
  REQUIRE_CALL(m, li(2)).LR_CO_THROW(local);
  REQUIRE_CALL(m, lv()).CO_THROW(1);
  REQUIRE_CALL(m, ei(3)).CO_YIELD(1).CO_YIELD(_1 + 1).CO_RETURN(0);
  REQUIRE_CALL(m, li(3)).CO_RETURN(0).CO_YIELD(1).LR_CO_YIELD(local);
  REQUIRE_CALL(m, li(4)).CO_YIELD(1).CO_THROW(2);
  REQUIRE_CALL(m, oi(1)).WITH(_1 > 0).IN_SEQUENCE(s).TIMES(2).CO_RETURN(_1);
  REQUIRE_CALL(m, gen(1)).CO_YIELD(1).CO_YIELD(2).CO_RETURN();
  REQUIRE_CALL(m, gen(2)).CO_RETURN();
  REQUIRE_CALL(m, ogen(1)).CO_YIELD(1).CO_YIELD(_1).CO_RETURN();
  REQUIRE_CALL(m, tgen(1)).CO_YIELD(1).CO_YIELD(_1).CO_RETURN();
  REQUIRE_CALL(m, str(trompeloeil::_)).CO_RETURN(static_cast<int>(_1.size()));
  FORBID_CALL(m, ei(9));
  ALLOW_CALL(m, li(9)).CO_RETURN(9);
  auto a = m.ei(1);
  auto b = m.li(1);
  auto c = m.ev();
  auto d = m.lv();
  auto e = m.oi(1);
  auto g = m.gen(1);
  auto og = m.ogen(1);
  auto tg = m.tgen(1);
  auto f = m.str(std::string("abc"));
  for (auto&& x : g) { (void)x; }
}

} // namespace cor

int main() {}
