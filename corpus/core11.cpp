// Instantiation driver for the C++11 macro API (cpp11_shenanigans.hpp); parsed with -std=c++11, never executed.
#include <trompeloeil.hpp>
#include <stdexcept>
#include <string>

namespace corpus11 {

struct Mock
{
  MAKE_MOCK1(f, int(int));
  MAKE_MOCK1(g, void(int&));
  MAKE_CONST_MOCK1(h, int(int));
  MAKE_MOCK3(t3, void(int, int, int));          // arities that are not a power of two exercise the library's
  MAKE_MOCK5(t5, void(int, int, int, int, int)); // own C++11 make_index_sequence
};

int glob;

void drive()
{
  Mock m;
  int local = 1;
  int i = 0;
  trompeloeil::sequence seq;
  REQUIRE_CALL_V(m, f(trompeloeil::_),
    .WITH(_1 == local)
    .SIDE_EFFECT(glob = local)
    .RETURN(local));
  REQUIRE_CALL_V(m, f(trompeloeil::_),
    .LR_WITH(_1 == local)
    .LR_SIDE_EFFECT(local = _1)
    .LR_RETURN(local));
  REQUIRE_CALL_V(m, f(1),
    .THROW(std::runtime_error(std::to_string(local))));
  REQUIRE_CALL_V(m, f(2),
    .LR_THROW(std::runtime_error(std::to_string(local))));
  ALLOW_CALL_V(m, g(trompeloeil::_),
    .SIDE_EFFECT(_1 = local)
    .IN_SEQUENCE(seq));
  auto e = NAMED_REQUIRE_CALL_V(m, h(trompeloeil::gt(0)),
    .TIMES(2)
    .RETURN(_1 + local));
  FORBID_CALL_V(m, f(7));
  REQUIRE_CALL_V(m, t3(1, 2, 3));
  REQUIRE_CALL_V(m, t5(1, 2, 3, 4, trompeloeil::gt(0)));
  m.f(1);
  m.g(i);
  m.h(1);
}


// the C++11 level has its own exchange (cpp11_shenanigans.hpp): installing reporters and tracers goes through it
void install(std::ostream& os)
{
  auto prev = trompeloeil::set_reporter([](trompeloeil::severity, char const*, unsigned long, std::string const&) {});
  auto both = trompeloeil::set_reporter([](trompeloeil::severity, char const*, unsigned long, std::string const&) {},
                                        [](char const*) {});
  trompeloeil::stream_tracer tracer(os);
  (void)prev;
  (void)both;
}

}
