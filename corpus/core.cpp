// Instantiation driver (never executed, only parsed): touches every public
// entry point of the expectation / sequence / lifetime / tracing / reporting
// API so that the template code of /repo/include is instantiated and can be
// analysed.  Nothing here is trompeloeil code under test.
#include <trompeloeil.hpp>
#include <iostream>
#include <memory>
#include <string>
#include <vector>

namespace corpus {

struct Iface {
  virtual ~Iface() = default;
  virtual int vfunc(int) = 0;
  virtual void cvfunc(std::string const&) const = 0;
};

struct Mock {
  MAKE_MOCK0(f0, void());
  MAKE_MOCK1(f1, int(int));
  MAKE_MOCK2(f2, int(int, std::string const&));
  MAKE_MOCK1(ovl, void(int));
  MAKE_MOCK1(ovl, void(std::string));
  MAKE_CONST_MOCK1(cf1, int(int));
  MAKE_MOCK1(ref, int&(int&));
  MAKE_MOCK1(ptr, char const*(int*));
  MAKE_MOCK1(up, void(std::unique_ptr<int>));
  MAKE_MOCK1(rv, void(std::string&&));
  MAKE_MOCK3(f3, void(int, long, char));
};

struct MockImpl : trompeloeil::mock_interface<Iface> {
  IMPLEMENT_MOCK1(vfunc);
  IMPLEMENT_CONST_MOCK1(cvfunc);
};

struct Movable {
  static constexpr bool trompeloeil_movable_mock = true;
  MAKE_MOCK1(m, int(int));
};

struct Dying {
  virtual ~Dying() = default;
  MAKE_MOCK0(ping, void());
};

struct Plain {
  virtual ~Plain() = default;
  int v = 0;
};

struct MyTracer : trompeloeil::tracer {
  void trace(char const*, unsigned long, std::string const&) override {}
};

int glob;

void basic() {
  Mock m;
  int local = 3;
  REQUIRE_CALL(m, f0());
  REQUIRE_CALL(m, f1(1)).RETURN(_1 + local);
  REQUIRE_CALL(m, f1(trompeloeil::_)).WITH(_1 > local).SIDE_EFFECT(glob = _1).RETURN(0);
  REQUIRE_CALL(m, f1(2)).LR_WITH(_1 > local).LR_SIDE_EFFECT(local = _1).LR_RETURN(local);
  REQUIRE_CALL(m, f1(3)).THROW(std::string("x"));
  REQUIRE_CALL(m, f1(4)).LR_THROW(local);
  ALLOW_CALL(m, f2(trompeloeil::ne(0), "s")).RETURN(1);
  FORBID_CALL(m, f1(5));
  REQUIRE_CALL(m, f1(6)).TIMES(2).RETURN(0);
  REQUIRE_CALL(m, f1(7)).TIMES(1, 3).RETURN(0);
  REQUIRE_CALL(m, f1(8)).TIMES(AT_LEAST(2)).RETURN(0);
  REQUIRE_CALL(m, f1(9)).TIMES(AT_MOST(2)).RETURN(0);
  REQUIRE_CALL(m, f1(10)).RT_TIMES(static_cast<std::size_t>(local)).RETURN(0);
  REQUIRE_CALL(m, f1(11)).RT_TIMES(1, static_cast<std::size_t>(local)).RETURN(0);
  REQUIRE_CALL(m, f1(12)).RT_TIMES(AT_LEAST(2)).RETURN(0);
  REQUIRE_CALL(m, f1(13)).RT_TIMES(AT_MOST(2)).RETURN(0);
  REQUIRE_CALL(m, f1(14)).TIMES(0);
  REQUIRE_CALL(m, ovl(1));
  REQUIRE_CALL(m, ovl(std::string("a")));
  REQUIRE_CALL(m, cf1(1)).RETURN(1);
  REQUIRE_CALL(m, ref(trompeloeil::_)).LR_RETURN(_1);
  REQUIRE_CALL(m, ptr(nullptr)).RETURN("lit");
  REQUIRE_CALL(m, up(trompeloeil::ne(nullptr)));
  REQUIRE_CALL(m, rv(trompeloeil::_)).WITH(_1 == "z");
  REQUIRE_CALL(m, f3(1, 2L, 'c')).WITH(_1 == 1).WITH(_2 == 2).SIDE_EFFECT(glob = _1).SIDE_EFFECT(glob += _3);
  m.f0();
  m.f1(1);
  m.f2(1, "s");
  m.ovl(1);
  m.ovl(std::string("a"));
  m.cf1(1);
  int x = 0;
  m.ref(x);
  m.ptr(&x);
  m.up(std::make_unique<int>(1));
  m.rv(std::string("z"));
  m.f3(1, 2L, 'c');
}

void named() {
  Mock m;
  auto e1 = NAMED_REQUIRE_CALL(m, f1(1)).RETURN(0);
  auto e2 = NAMED_ALLOW_CALL(m, f1(2)).RETURN(0);
  auto e3 = NAMED_FORBID_CALL(m, f1(3));
  bool a = e1->is_satisfied();
  bool b = e2->is_saturated();
  (void)a; (void)b;
  e1.reset();
  m.f1(2);
}

void sequences() {
  Mock m;
  trompeloeil::sequence s1, s2;
  REQUIRE_CALL(m, f1(1)).IN_SEQUENCE(s1).RETURN(0);
  REQUIRE_CALL(m, f1(2)).IN_SEQUENCE(s1, s2).TIMES(2).RETURN(0);
  REQUIRE_CALL(m, f1(3)).TIMES(AT_LEAST(1)).IN_SEQUENCE(s2).RETURN(0);
  REQUIRE_CALL(m, f1(4)).RT_TIMES(2).IN_SEQUENCE(s2).RETURN(0);
  REQUIRE_CALL(m, f1(5)).IN_SEQUENCE(s2).RT_TIMES(2).RETURN(0);
  ALLOW_CALL(m, f0()).IN_SEQUENCE(s1);
  auto n = NAMED_REQUIRE_CALL(m, f0()).IN_SEQUENCE(s1, s2);
  bool c = s1.is_completed();
  (void)c;
  m.f1(1);
  m.f0();
  trompeloeil::sequence moved = std::move(s2);
  (void)moved;
}

void lifetime() {
  trompeloeil::sequence s;
  auto* d = new trompeloeil::deathwatched<Dying>();
  auto* d2 = new trompeloeil::deathwatched<Dying>();
  REQUIRE_DESTRUCTION(*d);
  auto mon = NAMED_REQUIRE_DESTRUCTION(*d2).IN_SEQUENCE(s);
  REQUIRE_CALL(*d, ping()).IN_SEQUENCE(s);
  d->ping();
  bool a = mon->is_satisfied();
  bool b = mon->is_saturated();
  (void)a; (void)b;
  auto* p = new trompeloeil::deathwatched<Plain>();
  REQUIRE_DESTRUCTION(*p);
  trompeloeil::deathwatched<Plain> copy(*p);
  const trompeloeil::deathwatched<Plain>& cref = *p;
  trompeloeil::deathwatched<Plain> ccopy(cref);
  trompeloeil::deathwatched<Plain> moved(std::move(*p));
  copy = moved;
  copy = std::move(moved);
  *p = copy;
  delete p;
  delete d;
  delete d2;
  mon.reset();
}

void impl() {
  MockImpl m;
  REQUIRE_CALL(m, vfunc(1)).RETURN(2);
  REQUIRE_CALL(m, cvfunc("x"));
  Iface& i = m;
  i.vfunc(1);
  i.cvfunc("x");
}

void movable() {
  Movable a;
  auto e = NAMED_REQUIRE_CALL(a, m(1)).RETURN(1);
  Movable b(std::move(a));
  b.m(1);
}

void tracing() {
  MyTracer t;
  trompeloeil::stream_tracer st(std::cout);
  Mock m;
  REQUIRE_CALL(m, f1(1)).RETURN(1);
  m.f1(1);
}

void reporting() {
  auto old = trompeloeil::set_reporter(
    [](trompeloeil::severity, char const*, unsigned long, std::string const&) {});
  auto both = trompeloeil::set_reporter(
    [](trompeloeil::severity, char const*, unsigned long, std::string const&) {},
    [](char const*) {});
  trompeloeil::set_reporter(old);
  (void)both;
}

} // namespace corpus

int main() {
  corpus::basic();
  corpus::named();
  corpus::sequences();
  corpus::lifetime();
  corpus::impl();
  corpus::movable();
  corpus::tracing();
  corpus::reporting();
}
